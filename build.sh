#!/bin/sh
# builds the verifier from files on disk only (x/tools v0.29.0 from the module cache)
set -e
cd "$(dirname "$0")/govc"
export GOFLAGS=-mod=mod GOPROXY=off GOSUMDB=off GOTOOLCHAIN=local
go build -o ../bin/govc .

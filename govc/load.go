package main

import (
	"fmt"
	"go/ast"
	"go/token"
	"go/types"
	"os"
	"strings"

	"golang.org/x/tools/go/packages"
)

// Prog is the loaded repository package.
type Prog struct {
	Dir   string
	Fset  *token.FileSet
	Pkg   *packages.Package
	Info  *types.Info
	Funcs map[string]*ast.FuncDecl // key: "name" or "(T).name" / "(*T).name"
	Files map[string]*ast.File
}

func repoDir() string {
	if d := os.Getenv("VERIF_REPO"); d != "" {
		return d
	}
	return "/repo"
}

func loadProg(dir string) (*Prog, error) {
	cfg := &packages.Config{
		Mode: packages.NeedName | packages.NeedFiles | packages.NeedSyntax | packages.NeedTypes |
			packages.NeedTypesInfo | packages.NeedImports | packages.NeedDeps,
		Dir:        dir,
		BuildFlags: []string{"-tags=verif"},
		Env:        append(os.Environ(), "GOFLAGS=-mod=mod", "GOPROXY=off", "GOSUMDB=off", "GOTOOLCHAIN=local"),
	}
	pkgs, err := packages.Load(cfg, ".")
	if err != nil {
		return nil, err
	}
	if len(pkgs) != 1 {
		return nil, fmt.Errorf("expected 1 package, got %d", len(pkgs))
	}
	p := pkgs[0]
	if len(p.Errors) > 0 {
		return nil, fmt.Errorf("package errors: %v", p.Errors)
	}
	pr := &Prog{Dir: dir, Fset: p.Fset, Pkg: p, Info: p.TypesInfo, Funcs: map[string]*ast.FuncDecl{}, Files: map[string]*ast.File{}}
	for _, f := range p.Syntax {
		name := p.Fset.Position(f.Pos()).Filename
		pr.Files[name[strings.LastIndex(name, "/")+1:]] = f
		for _, d := range f.Decls {
			fd, ok := d.(*ast.FuncDecl)
			if !ok {
				continue
			}
			pr.Funcs[funcKey(fd)] = fd
		}
	}
	return pr, nil
}

func funcKey(fd *ast.FuncDecl) string {
	if fd.Recv == nil || len(fd.Recv.List) == 0 {
		return fd.Name.Name
	}
	return "(" + recvTypeString(fd.Recv.List[0].Type) + ")." + fd.Name.Name
}

func recvTypeString(e ast.Expr) string {
	switch x := e.(type) {
	case *ast.StarExpr:
		return "*" + recvTypeString(x.X)
	case *ast.Ident:
		return x.Name
	case *ast.IndexExpr:
		return recvTypeString(x.X)
	}
	return "?"
}

// funcKeyOf returns the contract key for a types.Func of the package.
func funcKeyOf(f *types.Func) string {
	sig := f.Type().(*types.Signature)
	if sig.Recv() == nil {
		return f.Name()
	}
	rt := sig.Recv().Type()
	star := ""
	if p, ok := rt.(*types.Pointer); ok {
		rt = p.Elem()
		star = "*"
	}
	name := "?"
	if n, ok := rt.(*types.Named); ok {
		name = n.Obj().Name()
	}
	return "(" + star + name + ")." + f.Name()
}

func (p *Prog) pos(n ast.Node) string {
	ps := p.Fset.Position(n.Pos())
	f := ps.Filename
	return fmt.Sprintf("%s:%d", f[strings.LastIndex(f, "/")+1:], ps.Line)
}

// findCase finds, inside fd, the case clause of the first (outermost) switch whose
// case list mentions label (an identifier name or a quoted string literal).
func findCase(fd *ast.FuncDecl, label string) (sw *ast.SwitchStmt, cc *ast.CaseClause) {
	ast.Inspect(fd.Body, func(n ast.Node) bool {
		if cc != nil {
			return false
		}
		s, ok := n.(*ast.SwitchStmt)
		if !ok {
			return true
		}
		for _, c := range s.Body.List {
			c := c.(*ast.CaseClause)
			for _, e := range c.List {
				if caseLabel(e) == label {
					sw, cc = s, c
					return false
				}
			}
			if c.List == nil && label == "default" {
				sw, cc = s, c
				return false
			}
		}
		return false // only the outermost switch
	})
	return
}

func caseLabel(e ast.Expr) string {
	switch x := e.(type) {
	case *ast.Ident:
		return x.Name
	case *ast.BasicLit:
		return x.Value
	}
	return ""
}

// loopsIn lists the for/range statements of a node in source order (pre-order), not
// descending into function literals.
func loopsIn(n ast.Node) []ast.Stmt {
	var out []ast.Stmt
	ast.Inspect(n, func(x ast.Node) bool {
		switch s := x.(type) {
		case *ast.FuncLit:
			return false
		case *ast.ForStmt:
			out = append(out, s)
		case *ast.RangeStmt:
			out = append(out, s)
		}
		return true
	})
	return out
}

// closuresIn lists the function literals of a node in source order (outermost only).
func closuresIn(n ast.Node) []*ast.FuncLit {
	var out []*ast.FuncLit
	ast.Inspect(n, func(x ast.Node) bool {
		if fl, ok := x.(*ast.FuncLit); ok {
			out = append(out, fl)
			return false
		}
		return true
	})
	return out
}

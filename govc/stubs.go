package main

import (
	"go/ast"
)

func (g *Gen) tables(id string) {
	g.ruleLemmas(id)
	g.symbolObligations(id)
	g.sortObligations(id)
}
func (g *Gen) thoroughExtras(id string, obls *[]*Obligation, work string) {}
func runSelftest(args []string) int { return 2 }

var _ ast.Node

package main

func (g *Gen) tables(id string) {
	g.ruleLemmas(id)
	g.symbolObligations(id)
	g.sortObligations(id)
	g.castObligations(id)
}

// thoroughExtras: the thorough tier differs from quick in solver budget (60 s per obligation
// instead of 10 s) and in cross-checking: every obligation is run on all three solvers and a
// disagreement (one says sat where another says unsat) fails it. No additional obligations are
// generated: the contracts are the same unbounded statements in both tiers.
func (g *Gen) thoroughExtras(id string, obls *[]*Obligation, work string) {}

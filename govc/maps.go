package main

import (
	"fmt"
	"go/ast"
	"go/token"
	"go/types"
)

// Go maps: reference (Int) + three heaps per (key sort, value sort):
//   M$K$V$dom : Array Int (Array K Bool), M$K$V$val : Array Int (Array K V), M$K$V$card : Array Int Int

func (e *Ev) mapHeapBase(mt *types.Map) string {
	base := "M$" + sanitize(e.sortOf(mt.Key())) + "$" + sanitize(e.sortOf(mt.Elem()))
	e.g().mapSorts[base] = [2]string{e.sortOf(mt.Key()), e.sortOf(mt.Elem())}
	return base
}

func (e *Ev) mapSorts(l *Loc) (ks, vs string) {
	return "", ""
}

func (e *Ev) mapHeaps(base string, ks, vs string) (dom, val, card string) {
	dom = e.heap(base+"$dom", fmt.Sprintf("(Array Int (Array %s Bool))", ks))
	val = e.heap(base+"$val", fmt.Sprintf("(Array Int (Array %s %s))", ks, vs))
	card = e.heap(base+"$card", "(Array Int Int)")
	return
}

func (e *Ev) mapKV(l *Loc) (string, string) {
	// recover key/value sorts from the heap base name is fragile; keep them on the Loc via T and Idx sort
	return "", ""
}

func (e *Ev) mapTypeSorts(mt *types.Map) (string, string) {
	return e.sortOf(mt.Key()), e.sortOf(mt.Elem())
}

// mapLoad: m[k] (zero value when absent; nil map reads are allowed in Go)
func (e *Ev) mapLoad(l *Loc, n ast.Node) Term {
	ks, vs := e.locMapSorts(l)
	dom, val, _ := e.mapHeaps(l.Name, ks, vs)
	z := e.g().zero(l.T, e.bv)
	has := app("select", app("select", dom, l.Ref), l.Idx)
	v := app("select", app("select", val, l.Ref), l.Idx)
	return Term{S: smtIte(has, v, z.S), Sort: vs, T: l.T, Signed: isSigned(l.T)}
}

func (e *Ev) mapHas(l *Loc) string {
	ks, vs := e.locMapSorts(l)
	dom, _, _ := e.mapHeaps(l.Name, ks, vs)
	return app("select", app("select", dom, l.Ref), l.Idx)
}

func (e *Ev) locMapSorts(l *Loc) (string, string) {
	if l.KS != "" {
		return l.KS, l.VS
	}
	// derive from registry
	if p, ok := e.g().mapSorts[l.Name]; ok {
		return p[0], p[1]
	}
	e.errorf(nil, "unknown map heap %s", l.Name)
	return sInt, sInt
}

func (e *Ev) mapStore(l *Loc, v Term, n ast.Node) {
	ks, vs := e.locMapSorts(l)
	dom, val, card := e.mapHeaps(l.Name, ks, vs)
	e.panicIf(smtEq(l.Ref, "0"), "assignment to entry in nil map", n)
	v = e.toType(v, l.T, n)
	has := app("select", app("select", dom, l.Ref), l.Idx)
	// card is the size of dom: never negative, at least one when some key is present
	e.st.assume(app(">=", app("select", card, l.Ref), "0"))
	e.st.assume(smtImp(has, app(">=", app("select", card, l.Ref), "1")))
	e.setHeap(l.Name+"$card", app("store", card, l.Ref, smtIte(has, app("select", card, l.Ref), app("+", app("select", card, l.Ref), "1"))), "(Array Int Int)")
	e.setHeap(l.Name+"$dom", app("store", dom, l.Ref, app("store", app("select", dom, l.Ref), l.Idx, "true")), fmt.Sprintf("(Array Int (Array %s Bool))", ks))
	e.setHeap(l.Name+"$val", app("store", val, l.Ref, app("store", app("select", val, l.Ref), l.Idx, v.S)), fmt.Sprintf("(Array Int (Array %s %s))", ks, vs))
}

func (e *Ev) mapDelete(m Term, mt *types.Map, k Term) {
	ks, vs := e.mapTypeSorts(mt)
	base := e.mapHeapBase(mt)
	e.g().mapSorts[base] = [2]string{ks, vs}
	dom, _, card := e.mapHeaps(base, ks, vs)
	has := app("select", app("select", dom, m.S), k.S)
	e.setHeap(base+"$card", app("store", card, m.S, smtIte(has, app("-", app("select", card, m.S), "1"), app("select", card, m.S))), "(Array Int Int)")
	e.setHeap(base+"$dom", app("store", dom, m.S, app("store", app("select", dom, m.S), k.S, "false")), fmt.Sprintf("(Array Int (Array %s Bool))", ks))
}

func (e *Ev) mapCard(m Term, mt *types.Map) string {
	ks, vs := e.mapTypeSorts(mt)
	base := e.mapHeapBase(mt)
	e.g().mapSorts[base] = [2]string{ks, vs}
	_, _, card := e.mapHeaps(base, ks, vs)
	c := app("select", card, m.S)
	// a map never has a negative number of entries; the nil map has none
	e.st.assume(app(">=", c, "0"))
	e.st.assume(smtEq(app("select", card, "0"), "0"))
	dom, _, _ := e.mapHeaps(base, ks, vs)
	e.st.assume(fmt.Sprintf("(forall ((k %s)) (! (=> (select (select %s %s) k) (>= %s 1)) :pattern ((select (select %s %s) k))))", ks, dom, m.S, c, dom, m.S))
	return c
}

func (e *Ev) allocMap(mt *types.Map, n ast.Node) Term {
	ks, vs := e.mapTypeSorts(mt)
	base := e.mapHeapBase(mt)
	e.g().mapSorts[base] = [2]string{ks, vs}
	dom, _, card := e.mapHeaps(base, ks, vs)
	r := e.freshRef("map")
	e.define(smtEq(app("select", card, r), "0"))
	e.define(fmt.Sprintf("(forall ((k %s)) (! (not (select (select %s %s) k)) :pattern ((select (select %s %s) k))))", ks, dom, r, dom, r))
	return Term{S: r, Sort: sInt, T: mt}
}

// execRangeMap: `for k, v := range m` as havoc-with-invariant over an arbitrary enumeration.
// Ghost: the set of keys already visited, `visited` (Array K Bool), visible in specs as rangevisited(k).
func (u *Unit) execRangeMap(n *ast.RangeStmt, mt *types.Map, x Term, lb *Block, st *State, f Flow) {
	e := u.newEv(st)
	ks, vs := e.mapTypeSorts(mt)
	base := e.mapHeapBase(mt)
	u.g.mapSorts[base] = [2]string{ks, vs}
	pos := n.Body.Lbrace + 1
	visSort := fmt.Sprintf("(Array %s Bool)", ks)
	emptyVis := u.g.freshName("vis0")
	st.declare(emptyVis, visSort)
	st.assume(fmt.Sprintf("(forall ((k %s)) (not (select %s k)))", ks, emptyVis))
	st.named["rangevisited"] = Term{S: emptyVis, Sort: visSort}
	u.checkInvariants(lb, st, pos, "init", nil)
	u.checkLoopFrameInit(lb, st)
	head := st.clone()
	he := u.newEv(head)
	u.havocLoop(he, n)
	vis := u.g.freshName("vis")
	head.declare(vis, visSort)
	head.named["rangevisited"] = Term{S: vis, Sort: visSort}
	u.assumeInvariants(lb, head, pos)
	u.assumeLoopFrame(head)
	// one more key: live and not yet visited
	hd := u.newEv(head)
	dom, val, _ := hd.mapHeaps(base, ks, vs)
	k := u.g.freshName("rk")
	head.declare(k, ks)
	body := u.fork(head, smtAnd(app("select", app("select", dom, x.S), k), smtNot(app("select", vis, k))))
	if id, ok := n.Key.(*ast.Ident); ok && id.Name != "_" {
		kt := Term{S: k, Sort: ks, T: mt.Key(), Signed: isSigned(mt.Key())}
		if n.Tok == token.DEFINE {
			body.vars[u.g.P.Info.Defs[id]] = kt
		} else {
			be := u.newEv(body)
			be.store(be.lvalue(id), kt, n)
		}
	}
	if n.Value != nil {
		if id, ok := n.Value.(*ast.Ident); ok && id.Name != "_" {
			vt := Term{S: app("select", app("select", val, x.S), k), Sort: vs, T: mt.Elem(), Signed: isSigned(mt.Elem())}
			if n.Tok == token.DEFINE {
				body.vars[u.g.P.Info.Defs[id]] = vt
			} else {
				be := u.newEv(body)
				be.store(be.lvalue(id), vt, n)
			}
		}
	}
	endIter := func(s *State) {
		s.named["rangevisited"] = Term{S: app("store", vis, k, "true"), Sort: visSort}
		u.checkInvariants(lb, s, pos, "preserve", head)
		u.checkLoopFrame(lb, s)
	}
	bf := Flow{next: endIter, cont: endIter, brk: f.next, ret: f.ret}
	u.exec(n.Body, body, bf)
	// exit: every live key visited
	exit := u.fork(head, fmt.Sprintf("(forall ((k %s)) (=> (select (select %s %s) k) (select %s k)))", ks, dom, x.S, vis))
	f.next(exit)
}

package main

import (
	"strconv"
	"fmt"
	"go/ast"
	"go/parser"
	"go/token"
	"go/types"
	"strings"
)

func (e *Ev) call(n *ast.CallExpr) Term {
	// conversion?
	if !e.spec {
		if tv, ok := e.g().P.Info.Types[n.Fun]; ok && tv.IsType() {
			x := e.ev(n.Args[0])
			return e.convert(x, tv.Type, n)
		}
	}
	fun := n.Fun
	if p, ok := fun.(*ast.ParenExpr); ok {
		fun = p.X
	}
	switch f := fun.(type) {
	case *ast.Ident:
		if e.spec {
			if t, ok := e.specCall(f.Name, n); ok {
				return t
			}
			if _, bound := e.bound[f.Name]; !bound {
				obj := e.lookupObj(f.Name)
				switch o := obj.(type) {
				case *types.TypeName:
					return e.convert(e.ev(n.Args[0]), o.Type(), n)
				case *types.Builtin:
					return e.builtin(o.Name(), n)
				case *types.Func:
					return e.callStatic(o, nil, e.evArgs(n, o.Type().(*types.Signature)), n)
				}
			}
		} else {
			switch o := e.g().P.Info.Uses[f].(type) {
			case *types.Builtin:
				return e.builtin(o.Name(), n)
			case *types.Func:
				return e.callStatic(o, nil, e.evArgs(n, o.Type().(*types.Signature)), n)
			}
		}
		// function value
		fv := e.ev(f)
		return e.callValue(fv, n)
	case *ast.SelectorExpr:
		return e.callSelector(f, n)
	case *ast.ArrayType, *ast.StarExpr, *ast.MapType, *ast.InterfaceType, *ast.FuncType:
		if t := e.evType(f); t != nil {
			return e.convert(e.ev(n.Args[0]), t, n)
		}
	case *ast.FuncLit:
		fv := e.ev(f)
		return e.callValue(fv, n)
	case *ast.IndexExpr:
		// generic function instantiation f[T](...)
		if id, ok := f.X.(*ast.Ident); ok && !e.spec {
			if o, ok := e.g().P.Info.Uses[id].(*types.Func); ok {
				return e.callStatic(o, nil, e.evArgs(n, o.Type().(*types.Signature)), n)
			}
		}
	}
	return e.errorf(n, "unsupported call form %T", fun)
}

func (e *Ev) evArgs(n *ast.CallExpr, sig *types.Signature) []Term {
	var args []Term
	np := sig.Params().Len()
	if len(n.Args) == 1 && np > 1 {
		// f(g()) with multi-value g
		t := e.ev(n.Args[0])
		return t.Tuple
	}
	for i, a := range n.Args {
		v := e.ev(a)
		if sig.Variadic() && i >= np-1 {
			if n.Ellipsis.IsValid() {
				args = append(args, v)
				continue
			}
			et := sig.Params().At(np - 1).Type().(*types.Slice).Elem()
			args = append(args, e.toType(v, et, n))
			continue
		}
		if i < np {
			v = e.toType(v, sig.Params().At(i).Type(), n)
		}
		args = append(args, v)
	}
	if sig.Variadic() && !n.Ellipsis.IsValid() && !e.noPack {
		// pack the variadic tail into a fresh slice
		fixed := np - 1
		tail := args[fixed:]
		st := sig.Params().At(np - 1).Type().(*types.Slice)
		es := e.sortOf(st.Elem())
		var packed Term
		if len(tail) == 0 {
			packed = Term{S: "(mkSlice 0 0 0 0)", Sort: sSlice, T: st}
		} else {
			arr := e.freshRef("va")
			h := e.elemHeap(es)
			cur := app("select", h, arr)
			for i, v := range tail {
				cur = app("store", cur, fmt.Sprint(i), v.S)
			}
			e.setHeap("A$"+sanitize(es), app("store", h, arr, cur), fmt.Sprintf("(Array Int (Array Int %s))", es))
			packed = Term{S: fmt.Sprintf("(mkSlice %s 0 %d %d)", arr, len(tail), len(tail)), Sort: sSlice, T: st}
		}
		args = append(append([]Term{}, args[:fixed]...), packed)
	}
	return args
}

func (e *Ev) callSelector(sel *ast.SelectorExpr, n *ast.CallExpr) Term {
	// package-qualified function
	if id, ok := sel.X.(*ast.Ident); ok {
		var obj types.Object
		if e.spec {
			if _, bound := e.bound[id.Name]; !bound {
				obj = e.lookupObj(id.Name)
			}
		} else {
			obj = e.g().P.Info.Uses[id]
		}
		if pn, ok := obj.(*types.PkgName); ok {
			o := pn.Imported().Scope().Lookup(sel.Sel.Name)
			switch fo := o.(type) {
			case *types.Func:
				return e.callExternal(fo, nil, n)
			case *types.TypeName:
				return e.convert(e.ev(n.Args[0]), fo.Type(), n)
			}
			return e.errorf(n, "unknown %s.%s", id.Name, sel.Sel.Name)
		}
	}
	// method or field-of-function-type
	var recvT types.Type
	var recv Term
	if !e.spec {
		if s := e.g().P.Info.Selections[sel]; s != nil {
			switch s.Kind() {
			case types.MethodVal:
				fn := s.Obj().(*types.Func)
				recv = e.ev(sel.X)
				return e.callMethod(fn, recv, s.Recv(), n)
			case types.FieldVal:
				fv := e.ev(sel)
				return e.callValue(fv, n)
			}
		}
		return e.errorf(n, "unresolved selector call")
	}
	recv = e.ev(sel.X)
	recvT = recv.T
	if recvT == nil {
		return e.errorf(n, "method call on term of unknown type: %s", sel.Sel.Name)
	}
	obj, _, _ := types.LookupFieldOrMethod(recvT, true, e.g().P.Pkg.Types, sel.Sel.Name)
	switch o := obj.(type) {
	case *types.Func:
		return e.callMethod(o, recv, recvT, n)
	case *types.Var:
		fv := e.selectField(recv, sel.Sel.Name, n)
		return e.callValue(fv, n)
	}
	return e.errorf(n, "no method %s on %v", sel.Sel.Name, recvT)
}

func (e *Ev) callMethod(fn *types.Func, recv Term, recvT types.Type, n *ast.CallExpr) Term {
	sig := fn.Type().(*types.Signature)
	// interface method: dynamic dispatch
	if _, isIface := sig.Recv().Type().Underlying().(*types.Interface); isIface {
		return e.callDynamic(fn, recv, n)
	}
	if fn.Pkg() != e.g().P.Pkg.Types {
		return e.callExternal(fn, &recv, n)
	}
	// adjust receiver: pointer receiver called on addressable value / value receiver on pointer
	if recv.T == nil {
		// the receiver expression could not be evaluated (an error has been recorded for it)
		return e.errorf(n, "receiver of %s has no type", fn.Name())
	}
	_, wantPtr := sig.Recv().Type().Underlying().(*types.Pointer)
	_, havePtr := recv.T.Underlying().(*types.Pointer)
	if wantPtr && !havePtr {
		// need the address of the receiver expression
		var loc *Loc
		if !e.spec {
			loc = e.lvalue(n.Fun.(*ast.SelectorExpr).X)
		}
		if loc == nil {
			return e.errorf(n, "cannot take address of receiver for %s", fn.Name())
		}
		recv = e.addrOf(loc, n)
	} else if !wantPtr && havePtr {
		recv = e.load(e.derefLoc(recv, n), n)
	}
	args := e.evArgs(n, sig)
	return e.callStatic(fn, &recv, args, n)
}

// ---------- static calls by contract ----------

func (e *Ev) callStatic(fn *types.Func, recv *Term, args []Term, n *ast.CallExpr) Term {
	if fn.Pkg() != e.g().P.Pkg.Types {
		return e.callExternalArgs(fn, recv, args, n)
	}
	key := funcKeyOf(fn)
	b := e.g().C.forFunc(key)
	fd := e.g().P.Funcs[key]
	sig := fn.Type().(*types.Signature)
	if !e.spec && !e.quiet {
		// ghost call counter of the path (spec builtin calls("KEY"))
		cur := e.callCount(key)
		if n0, err := strconv.Atoi(cur); err == nil {
			e.st.named["$calls:"+key] = Term{S: fmt.Sprint(n0 + 1), Sort: sInt}
		} else {
			e.st.named["$calls:"+key] = Term{S: app("+", cur, "1"), Sort: sInt}
		}
	}
	if b == nil {
		e.g().errorf("%s: call to %s which has no contract", e.u.name, key)
		return e.freshResults(sig, key)
	}
	if _, ok := b.flag("inline"); ok {
		return e.inlineCall(fn, fd, b, recv, args, n)
	}
	if t, handled := e.lemmaCall(fn, key, b, recv, args, n); handled {
		return t
	}
	// pointers that denote a location inside another object or a local variable (&x, &s.f, the
	// receiver of s.f.M()): copy-in / copy-out through a temporary object. Sound as long as the
	// callee does not retain the pointer (recorded as an assumption).
	if !e.spec && !e.quiet {
		var outs []func()
		mat := func(t *Term) {
			if t == nil || t.Loc == nil || t.S != "" {
				return
			}
			pt, ok := t.T.Underlying().(*types.Pointer)
			if !ok {
				return
			}
			loc := t.Loc
			v := e.load(loc, n)
			r := e.freshRef("tmp" + sanitize(e.sortOf(pt.Elem())))
			hl := &Loc{Kind: "heap", Name: e.heapName(pt.Elem()), Ref: r, T: pt.Elem()}
			// the temporary is a fresh object: writing it is not a write of the unit's frame
			was := e.u.writes[hl.Name]
			e.store(hl, Term{S: v.S, Sort: v.Sort, T: pt.Elem()}, n)
			if !was {
				delete(e.u.writes, hl.Name)
			}
			*t = Term{S: r, Sort: sInt, T: t.T}
			e.g().Assumed["interior / local-variable pointers passed to "+key+" are modelled by copy-in/copy-out (the callee does not retain them)"] = true
			// copy back only if the callee's frame lets it change the pointee itself
			mayWrite := false
			for _, c := range b.clauses("modifies") {
				for _, it := range splitTopSpaces(c.Text) {
					if it == "*" || it == hl.Name || strings.HasPrefix(it, "fields(") || strings.HasPrefix(it, "allbut(") {
						mayWrite = true
					}
				}
			}
			if mayWrite {
				e.matPairs = append(e.matPairs, [2]*Loc{hl, loc})
				wholeHeap := false
				for _, c := range b.clauses("modifies") {
					for _, it := range splitTopSpaces(c.Text) {
						if it == "*" || it == hl.Name || strings.HasPrefix(it, "allbut(") {
							wholeHeap = true
						}
					}
				}
				outs = append(outs, func() {
					nv := e.load(hl, n)
					if !was && !wholeHeap {
						// the callee wrote only the temporary (fields(p) items): not a frame write
						delete(e.u.writes, hl.Name)
					}
					e.store(loc, nv, n)
				})
			} else {
				outs = append(outs, func() {})
			}
		}
		mat(recv)
		for i := range args {
			mat(&args[i])
		}
		if len(outs) > 0 {
			res := e.callStatic(fn, recv, args, n)
			e.matPairs = nil
			for _, f := range outs {
				f()
			}
			return res
		}
	}
	calleeBV := false
	if m, ok := b.flag("intmode"); ok && m == "bv" {
		calleeBV = true
	}
	// convert args to callee mode
	conv := func(t Term, gt types.Type) Term {
		t = e.toType(t, gt, n)
		if calleeBV == e.bv {
			return t
		}
		if bt, ok := gt.Underlying().(*types.Basic); ok && bt.Kind() == types.Int && e.g().namedName(gt) != "Type" {
			if calleeBV {
				if lit, ok := intLiteral(t.S); ok {
					e2 := *e
					e2.bv = true
					return e2.fromInt(lit.String())
				}
				return Term{S: app("i2bv64", t.S), Sort: sBV64, T: gt, Signed: true}
			}
			return Term{S: app("bv2i64", t.S), Sort: sInt, T: gt, Signed: true}
		}
		return t
	}
	var cargs []Term
	for i, a := range args {
		if i < sig.Params().Len() {
			cargs = append(cargs, conv(a, sig.Params().At(i).Type()))
		} else {
			cargs = append(cargs, a)
		}
	}
	// callee view states
	pre := &State{vars: map[types.Object]Term{}, named: map[string]Term{}, heaps: map[string]Term{}, decls: e.st.decls, boxed: map[types.Object]*Loc{}}
	for k, v := range e.st.heaps {
		pre.heaps[k] = v
	}
	bind := func(s *State) {
		if recv != nil && sig.Recv() != nil {
			s.vars[sig.Recv()] = *recv
		}
		for i := 0; i < sig.Params().Len() && i < len(cargs); i++ {
			s.vars[sig.Params().At(i)] = cargs[i]
		}
	}
	bind(pre)
	pos := token.NoPos
	if fd != nil && fd.Body != nil {
		pos = fd.Body.Lbrace + 1
	}
	mk := func(st, old *State) *Ev {
		return &Ev{u: e.u, st: st, old: old, spec: true, pos: pos, bv: calleeBV, bound: map[string]Term{}, guard: append([]string(nil), e.guard...), quiet: true}
	}
	// caller-specific call-site assertions (`callsite KEY: expr`), with the callee's parameter
	// names bound to the actual arguments as arg_<name>
	{
		bind := map[string]Term{}
		for i := 0; i < sig.Params().Len() && i < len(args); i++ {
			bind["arg_"+sig.Params().At(i).Name()] = args[i]
		}
		if recv != nil && sig.Recv() != nil {
			bind["arg_"+sig.Recv().Name()] = *recv
		}
		e.checkCallsite(key, n, bind)
	}
	// requires
	if !e.spec && !e.quiet {
		for i, c := range b.clauses("requires") {
			ce := mk(pre, pre)
			t := ce.evSpec(c.Text)
			name := c.Name
			if name == "" {
				name = fmt.Sprint(i)
			}
			e.u.addObl(fmt.Sprintf("%s/call:%s/requires#%s@%s", e.u.contractID(), key, name, e.u.siteID(n)), e.u.props, e.st, smtImp(e.guardCond(), t.S), "call-site precondition of "+key+": "+c.Text, nil)
		}
	}
	// panics
	var modItems []string
	for _, c := range b.clauses("modifies") {
		modItems = append(modItems, splitTopSpaces(c.Text)...)
	}
	if cs := b.clauses("panics_iff"); len(cs) > 0 {
		ce := mk(pre, pre)
		t := ce.evSpec(cs[0].Text)
		e.calleePanic(t.S, "callee "+key+" panics", n, modItems, mk(pre, pre))
	} else if _, ok := b.flag("nopanic"); !ok {
		if !e.spec && !e.quiet {
			pv := e.g().freshName("panics$" + sanitize(key))
			e.st.declare(pv, sBool)
			e.calleePanic(pv, "callee "+key+" may panic", n, modItems, mk(pre, pre))
		}
	}
	// results
	var results []Term
	_, pure := b.flag("pure")
	if pure {
		fname := "f$" + sanitize(key)
		var sorts, as []string
		if recv != nil {
			sorts = append(sorts, recv.Sort)
			as = append(as, recv.S)
		}
		for _, a := range cargs {
			sorts = append(sorts, a.Sort)
			as = append(as, a.S)
		}
		for i := 0; i < sig.Results().Len(); i++ {
			rt := sig.Results().At(i).Type()
			rs := e.g().sortOf(rt, calleeBV)
			fn_ := fname
			if sig.Results().Len() > 1 {
				fn_ = fmt.Sprintf("%s$%d", fname, i)
			}
			decl := fmt.Sprintf("(declare-fun %s (%s) %s)", fn_, strings.Join(sorts, " "), rs)
			e.g().Pre.add(decl)
			s := fn_
			if len(as) > 0 {
				s = app(fn_, as...)
			}
			results = append(results, Term{S: s, Sort: rs, T: rt, Signed: isSigned(rt)})
		}
	} else {
		for i := 0; i < sig.Results().Len(); i++ {
			rt := sig.Results().At(i).Type()
			rs := e.g().sortOf(rt, calleeBV)
			nm := e.g().freshName("r$" + sanitize(fn.Name()))
			e.st.declare(nm, rs)
			results = append(results, Term{S: nm, Sort: rs, T: rt, Signed: isSigned(rt)})
			// a returned slice value is well-formed
			e.wfSlice(results[len(results)-1])
		}
	}
	// objects allocated by this call (predicate alloc$k, which implies fresh$) are not referenced
	// from anywhere in the PRE-call heaps and differ from the caller's own allocations
	allocPred := ""
	if as := b.clauses("allocates"); len(as) > 0 {
		allocPred = e.g().freshName("alloc$")
		e.st.declareFun(allocPred, []string{sInt}, sBool)
		e.g().Pre.addFresh()
		e.define(fmt.Sprintf("(forall ((r Int)) (! (=> (%s r) (fresh$ r)) :pattern ((%s r))))", allocPred, allocPred))
		for _, o := range e.st.allocs {
			e.define(smtNot(app(allocPred, o)))
		}
		e.notInHeaps(func(c string) string { return smtNot(app(allocPred, c)) })
	}
	// modifies: havoc
	post := e.st
	for _, c := range b.clauses("modifies") {
		for _, h := range splitTopSpaces(c.Text) {
			e.havocItem(h, mk(pre, pre))
		}
	}
	// allocation: heaps in which the callee creates objects change only at objects allocated by
	// this call (predicate alloc$k, which implies fresh$ and excludes the caller's own allocations)
	if as := b.clauses("allocates"); len(as) > 0 {
		for _, c := range as {
			for _, h := range strings.Fields(c.Text) {
				name, srt := e.allocHeap(h, calleeBV)
				if name == "" {
					continue
				}
				cur := e.heap(name, srt)
				nm := e.g().freshName(name)
				e.st.declare(nm, srt)
				e.define(fmt.Sprintf("(forall ((r Int)) (! (=> (not (%s r)) (= (select %s r) (select %s r))) :pattern ((select %s r))))", allocPred, nm, cur, nm))
				e.st.heaps[name] = Term{S: nm, Sort: srt}
				e.u.noteWrite(name)
			}
		}
	}
	postView := &State{vars: map[types.Object]Term{}, named: map[string]Term{}, heaps: post.heaps, decls: e.st.decls, boxed: map[types.Object]*Loc{}}
	bind(postView)
	var resNames []string
	for i := 0; i < sig.Results().Len(); i++ {
		resNames = append(resNames, sig.Results().At(i).Name())
	}
	// ensures (assumed); requires are hypotheses for them in spec mode
	var reqs []string
	if e.spec || e.quiet {
		for _, c := range b.clauses("requires") {
			ce := mk(pre, pre)
			reqs = append(reqs, ce.evSpec(c.Text).S)
		}
	}
	if pure && !e.u.revealed(key) {
		// opaque by default: a pure callee is just its function symbol unless the unit reveals it
		goto done
	}
	for _, c := range append(b.clauses("ensures"), b.clauses("trusted_ensures")...) {
		if !assumableAtCallSite(c) {
			continue
		}
		if c.Kind == "trusted_ensures" {
			e.g().Assumed["assumed postcondition of "+key+" (not proved): "+c.Text] = true
		}
		ce := mk(postView, pre)
		ce.results = results
		ce.resNames = resNames
		ce.allocPred = allocPred
		ce.qvars = e.qvars
		t := ce.evSpec(c.Text)
		fact := smtImp(smtAnd(append([]string{e.guardCond()}, reqs...)...), t.S)
		e.assumeQ(fact)
		if c.Name != "" && len(e.qvars) == 0 {
			if e.u.invTag == nil {
				e.u.invTag = map[string]string{}
			}
			e.u.invTag[fact] = "call#" + c.Name
		}
	}
done:
	// well-formedness facts about slice values met while evaluating the callee's clauses (recorded
	// in the callee-view states) hold in the caller's state as well
	for _, vs := range []*State{postView, pre} {
		for _, f := range vs.pc {
			if strings.HasPrefix(f, "(and (<= 0 (slen ") || strings.HasPrefix(f, "(forall (") && strings.Contains(f, "(and (<= 0 (slen ") {
				dup := false
				for _, h := range e.st.pc {
					if h == f {
						dup = true
						break
					}
				}
				if !dup {
					e.st.assume(f)
				}
			}
		}
	}
	// convert results back to caller mode
	for i := range results {
		rt := results[i].T
		if calleeBV != e.bv {
			if bt, ok := rt.Underlying().(*types.Basic); ok && bt.Kind() == types.Int && e.g().namedName(rt) != "Type" {
				if calleeBV {
					results[i] = Term{S: app("bv2i64", results[i].S), Sort: sInt, T: rt, Signed: true}
				} else {
					results[i] = Term{S: app("i2bv64", results[i].S), Sort: sBV64, T: rt, Signed: true}
				}
			}
		}
	}
	switch len(results) {
	case 0:
		return Term{Sort: "void"}
	case 1:
		return results[0]
	}
	return Term{Sort: "tuple", Tuple: results}
}

func (u *Unit) siteID(n ast.Node) string {
	if n == nil || !n.Pos().IsValid() {
		return "spec"
	}
	if u.siteN == nil {
		u.siteN = map[token.Pos]int{}
	}
	if k, ok := u.siteN[n.Pos()]; ok {
		return fmt.Sprint(k)
	}
	k := len(u.siteN)
	u.siteN[n.Pos()] = k
	return fmt.Sprint(k)
}

func (e *Ev) havocHeap(h string) {
	if h == "*" {
		for _, k := range sortedHeapNames(e.st.heaps) {
			if !strings.HasPrefix(k, "G$") {
				e.havocHeap(k)
			}
		}
		e.u.modAll = true
		return
	}
	t, ok := e.st.heaps[h]
	if !ok {
		// heap not yet touched on this path: materialise via its sort if known
		if s, ok := e.g().heapSorts[h]; ok {
			e.heap(h, s)
			t = e.st.heaps[h]
		} else {
			return
		}
	}
	nm := e.g().freshName(h)
	e.st.declare(nm, t.Sort)
	e.st.heaps[h] = Term{S: nm, Sort: t.Sort, T: t.T}
	e.u.noteWrite(h)
}

func (e *Ev) freshResults(sig *types.Signature, hint string) Term {
	var results []Term
	for i := 0; i < sig.Results().Len(); i++ {
		rt := sig.Results().At(i).Type()
		rs := e.sortOf(rt)
		nm := e.g().freshName("r$" + sanitize(hint))
		e.st.declare(nm, rs)
		results = append(results, Term{S: nm, Sort: rs, T: rt, Signed: isSigned(rt)})
		e.wfSlice(results[len(results)-1])
	}
	switch len(results) {
	case 0:
		return Term{Sort: "void"}
	case 1:
		return results[0]
	}
	return Term{Sort: "tuple", Tuple: results}
}

// inlineCall executes the callee's body in place (pure helpers only) and merges its paths.
func (e *Ev) inlineCall(fn *types.Func, fd *ast.FuncDecl, b *Block, recv *Term, args []Term, n *ast.CallExpr) Term {
	if fd == nil || fd.Body == nil {
		return e.errorf(n, "inline: no body for %s", fn.Name())
	}
	if e.u.inlineDepth > 6 {
		return e.errorf(n, "inline depth exceeded at %s", fn.Name())
	}
	sig := fn.Type().(*types.Signature)
	sub := e.st.clone()
	for _, gd := range e.guard {
		sub.branch(gd)
	}
	base := len(sub.pc)
	if recv != nil && sig.Recv() != nil {
		sub.vars[sig.Recv()] = *recv
	}
	for i := 0; i < sig.Params().Len() && i < len(args); i++ {
		sub.vars[sig.Params().At(i)] = e.toType(args[i], sig.Params().At(i).Type(), n)
	}
	// run
	type ex struct {
		cond string
		res  []Term
	}
	var exits []ex
	var facts [][2]string
	saveSig, saveRes := e.u.sig, e.u.resVars
	e.u.sig = sig
	e.u.resVars = nil
	for i := 0; i < sig.Results().Len(); i++ {
		rv := sig.Results().At(i)
		if rv.Name() != "" {
			sub.vars[rv] = e.g().zero(rv.Type(), e.bv)
			e.u.resVars = append(e.u.resVars, rv)
		}
	}
	e.u.inlineDepth++
	saveBV := e.u.bv
	e.u.bv = e.bv
	heapsBefore := map[string]string{}
	for k, v := range sub.heaps {
		heapsBefore[k] = v.S
	}
	flow := Flow{
		ret: func(s *State, r []Term) {
			for k, v := range s.heaps {
				if old, ok := heapsBefore[k]; ok && old != v.S {
					e.g().errorf("%s: inlined %s writes heap %s", e.u.name, fn.Name(), k)
				}
			}
			var br []string
			for k := base; k < len(s.pc); k++ {
				if s.fact[k] {
					facts = append(facts, [2]string{smtAnd(br...), s.pc[k]})
				} else {
					br = append(br, s.pc[k])
				}
			}
			exits = append(exits, ex{cond: smtAnd(br...), res: r})
		},
	}
	flow.next = func(s *State) { flow.ret(s, nil) }
	e.u.execList(fd.Body.List, sub, flow)
	e.u.inlineDepth--
	e.u.bv = saveBV
	e.u.sig, e.u.resVars = saveSig, saveRes
	seenFact := map[string]bool{}
	for _, f := range facts {
		c := smtImp(smtAnd(e.guardCond(), f[0]), f[1])
		if !seenFact[c] {
			seenFact[c] = true
			e.assumeQ(c)
		}
	}
	// heaps first touched inside the inlined body
	for k, v := range sub.heaps {
		if _, ok := e.st.heaps[k]; !ok {
			e.st.heaps[k] = v
		}
	}
	// on the continuing path one of the callee's (non-panicking) exits was taken
	if len(exits) > 0 {
		var cs []string
		for _, x := range exits {
			cs = append(cs, x.cond)
		}
		if d := smtOr(cs...); d != "true" && len(e.qvars) == 0 {
			e.st.branch(smtImp(e.guardCond(), d))
		}
	}
	nres := sig.Results().Len()
	if nres == 0 {
		return Term{Sort: "void"}
	}
	if len(exits) == 0 {
		return e.errorf(n, "inline %s: no exits", fn.Name())
	}
	var results []Term
	for i := 0; i < nres; i++ {
		rt := sig.Results().At(i).Type()
		var acc string
		for j := len(exits) - 1; j >= 0; j-- {
			if i >= len(exits[j].res) {
				return e.errorf(n, "inline %s: result arity", fn.Name())
			}
			v := e.toType(exits[j].res[i], rt, n)
			if acc == "" {
				acc = v.S
			} else {
				acc = smtIte(exits[j].cond, v.S, acc)
			}
		}
		results = append(results, e.nameTerm(Term{S: acc, Sort: e.sortOf(rt), T: rt, Signed: isSigned(rt)}, fn.Name()))
	}
	if nres == 1 {
		return results[0]
	}
	return Term{Sort: "tuple", Tuple: results}
}

// ---------- builtins ----------

func (e *Ev) builtin(name string, n *ast.CallExpr) Term {
	switch name {
	case "len", "cap":
		x := e.ev(n.Args[0])
		var s string
		switch {
		case x.Sort == sSlice:
			s = app(ifs(name == "len", "slen", "scap"), x.S)
		case x.Sort == sStr:
			s = app("str_len", x.S)
		case x.T != nil:
			if mt, ok := x.T.Underlying().(*types.Map); ok {
				s = e.mapCard(x, mt)
			}
		}
		if s == "" {
			return e.errorf(n, "len of %s", x.Sort)
		}
		return e.fromInt(s)
	case "panic":
		e.ev(n.Args[0])
		e.panicIf("true", "explicit panic", n)
		e.st.dead = true
		return Term{Sort: "void"}
	case "append":
		return e.appendBuiltin(n)
	case "copy":
		return e.copyBuiltin(n)
	case "make":
		return e.makeBuiltin(n)
	case "delete":
		m := e.ev(n.Args[0])
		mt := m.T.Underlying().(*types.Map)
		k := e.toType(e.ev(n.Args[1]), mt.Key(), n)
		e.mapDelete(m, mt, k)
		return Term{Sort: "void"}
	case "recover":
		if r, ok := e.st.named["$recovered"]; ok {
			return r
		}
		return Term{S: "(mkObj 0 0 str_empty)", Sort: sObj, T: types.Universe.Lookup("any").Type()}
	case "min", "max":
		a := e.ev(n.Args[0])
		b := e.ev(n.Args[1])
		lt := e.binop(token.LSS, a, b, n)
		a, b = e.unify(a, b)
		r := a
		if name == "min" {
			r.S = smtIte(lt.S, a.S, b.S)
		} else {
			r.S = smtIte(lt.S, b.S, a.S)
		}
		return r
	}
	return e.errorf(n, "unsupported builtin %s", name)
}

func (e *Ev) makeBuiltin(n *ast.CallExpr) Term {
	t := e.evType(n.Args[0])
	if t == nil {
		return e.errorf(n, "make: unknown type")
	}
	switch u := t.Underlying().(type) {
	case *types.Slice:
		ln := e.evInt(n.Args[1])
		cp := ln
		if len(n.Args) > 2 {
			cp = e.evInt(n.Args[2])
		}
		e.panicIf(app("<", ln, "0"), "negative make length", n)
		arr := e.freshRef("mk")
		es := e.sortOf(u.Elem())
		h := e.elemHeap(es)
		z := e.g().zero(u.Elem(), e.bv)
		// all elements are zero
		e.define(fmt.Sprintf("(forall ((i Int)) (! (= (select (select %s %s) i) %s) :pattern ((select (select %s %s) i))))", h, arr, z.S, h, arr))
		return Term{S: fmt.Sprintf("(mkSlice %s 0 %s %s)", arr, ln, cp), Sort: sSlice, T: t}
	case *types.Map:
		m := e.allocMap(u, n)
		m.T = t
		return m
	}
	return e.errorf(n, "make of %v", t)
}

func (e *Ev) appendBuiltin(n *ast.CallExpr) Term {
	s := e.nameTerm(e.ev(n.Args[0]), "aps")
	var st *types.Slice
	if s.Sort == "nil" {
		if !e.spec {
			st = e.g().P.Info.Types[n].Type.Underlying().(*types.Slice)
		}
		s = Term{S: "(mkSlice 0 0 0 0)", Sort: sSlice}
	} else if s.T != nil {
		st, _ = s.T.Underlying().(*types.Slice)
	}
	if st == nil {
		return e.errorf(n, "append to non-slice")
	}
	es := e.sortOf(st.Elem())
	hname := "A$" + sanitize(es)
	hsort := fmt.Sprintf("(Array Int (Array Int %s))", es)
	// what is appended: either a list of items or the elements of a slice t (t may overlap s:
	// Go reads the source before writing, so the model reads from the pre-state heap)
	var items []Term
	var t Term
	spread := n.Ellipsis.IsValid()
	if spread {
		t = e.nameTerm(e.ev(n.Args[1]), "apt")
		if t.Sort == sStr {
			return e.errorf(n, "append(bytes, string...) unsupported")
		}
	} else {
		for _, a := range n.Args[1:] {
			items = append(items, e.toType(e.ev(a), st.Elem(), n))
		}
		if len(items) == 0 {
			return s
		}
	}
	h := e.elemHeap(es)
	slen, soff, sarr, scap := app("slen", s.S), app("soff", s.S), app("sarr", s.S), app("scap", s.S)
	k := fmt.Sprint(len(items))
	if spread {
		k = app("slen", t.S)
	}
	newLen := app("+", slen, k)
	fr := e.freshRef("ap")
	inPlace := e.g().freshName("apinplace")
	e.st.declare(inPlace, sBool)
	e.define(smtEq(inPlace, app("<=", newLen, scap)))
	rarr := e.g().freshName("aparr")
	e.st.declare(rarr, sInt)
	roff := e.g().freshName("apoff")
	e.st.declare(roff, sInt)
	rcap := e.g().freshName("apcap")
	e.st.declare(rcap, sInt)
	e.define(smtEq(rarr, smtIte(inPlace, sarr, fr)))
	e.define(smtEq(roff, smtIte(inPlace, soff, "0")))
	e.define(smtIte(inPlace, smtEq(rcap, scap), app(">=", rcap, newLen)))
	nh := e.g().freshName(hname)
	e.st.declare(nh, hsort)
	// other arrays untouched
	e.define(fmt.Sprintf("(forall ((a Int)) (! (=> (not (= a %s)) (= (select %s a) (select %s a))) :pattern ((select %s a))))", rarr, nh, h, nh))
	// the old elements are where they were (in place) or copied (reallocated)
	e.define(fmt.Sprintf("(forall ((p Int)) (! (=> (and (<= %s p) (< p (+ %s %s))) (= (select (select %s %s) p) (select (select %s %s) (+ %s (- p %s))))) :pattern ((select (select %s %s) p))))",
		roff, roff, slen, nh, rarr, h, sarr, soff, roff, nh, rarr))
	// the same fact triggered from the old array (to carry facts about old elements forward);
	// opt-in (`appendfwd`) because together with the previous fact it can feed a matching loop
	if e.u.block != nil && hasFlag(e.u.block, "appendfwd") {
	e.define(fmt.Sprintf("(forall ((p Int)) (! (=> (and (<= %s p) (< p (+ %s %s))) (= (select (select %s %s) (+ %s (- p %s))) (select (select %s %s) p))) :pattern ((select (select %s %s) p))))",
		soff, soff, slen, nh, rarr, roff, soff, h, sarr, h, sarr))
	}
	// the appended elements
	if spread {
		e.define(fmt.Sprintf("(forall ((p Int)) (! (=> (and (<= (+ %s %s) p) (< p (+ %s %s %s))) (= (select (select %s %s) p) (select (select %s (sarr %s)) (+ (soff %s) (- p (+ %s %s)))))) :pattern ((select (select %s %s) p))))",
			roff, slen, roff, slen, k, nh, rarr, h, t.S, t.S, roff, slen, nh, rarr))
	} else {
		for i, v := range items {
			e.define(smtEq(app("select", app("select", nh, rarr), app("+", roff, slen, fmt.Sprint(i))), v.S))
		}
	}
	// in place: the rest of the array is untouched
	e.define(smtImp(inPlace, fmt.Sprintf("(forall ((p Int)) (! (=> (or (< p %s) (>= p (+ %s %s))) (= (select (select %s %s) p) (select (select %s %s) p))) :pattern ((select (select %s %s) p))))",
		soff, soff, newLen, nh, sarr, h, sarr, nh, sarr)))
	e.st.heaps[hname] = Term{S: nh, Sort: hsort}
	e.u.noteWrite(hname)
	return Term{S: fmt.Sprintf("(mkSlice %s %s %s %s)", rarr, roff, newLen, rcap), Sort: sSlice, T: s.T}
}

func (e *Ev) copyBuiltin(n *ast.CallExpr) Term {
	dst := e.nameTerm(e.ev(n.Args[0]), "cpd")
	src := e.nameTerm(e.ev(n.Args[1]), "cps")
	if src.Sort == sStr {
		return e.errorf(n, "copy from string unsupported")
	}
	st := dst.T.Underlying().(*types.Slice)
	es := e.sortOf(st.Elem())
	hname := "A$" + sanitize(es)
	hsort := fmt.Sprintf("(Array Int (Array Int %s))", es)
	h := e.elemHeap(es)
	cnt := e.g().freshName("cpn")
	e.st.declare(cnt, sInt)
	e.define(smtEq(cnt, smtIte(app("<", app("slen", dst.S), app("slen", src.S)), app("slen", dst.S), app("slen", src.S))))
	nh := e.g().freshName(hname)
	e.st.declare(nh, hsort)
	e.define(fmt.Sprintf("(forall ((a Int)) (! (=> (not (= a (sarr %s))) (= (select %s a) (select %s a))) :pattern ((select %s a))))", dst.S, nh, h, nh))
	e.define(fmt.Sprintf("(forall ((j Int)) (! (= (select (select %s (sarr %s)) j) (ite (and (<= (soff %s) j) (< j (+ (soff %s) %s))) (select (select %s (sarr %s)) (+ (soff %s) (- j (soff %s)))) (select (select %s (sarr %s)) j))) :pattern ((select (select %s (sarr %s)) j))))",
		nh, dst.S, dst.S, dst.S, cnt, h, src.S, src.S, dst.S, h, dst.S, nh, dst.S))
	e.st.heaps[hname] = Term{S: nh, Sort: hsort}
	e.u.noteWrite(hname)
	return e.fromInt(cnt)
}

// ---------- calls through function values, interfaces, externals ----------

func (e *Ev) callValue(fv Term, n *ast.CallExpr) Term {
	sig, ok := fv.T.Underlying().(*types.Signature)
	if !ok {
		return e.errorf(n, "call of non-function value")
	}
	args := e.evArgs(n, sig)
	return e.g().callFuncValue(e, fv, sig, args, n)
}

func (e *Ev) callDynamic(fn *types.Func, recv Term, n *ast.CallExpr) Term {
	sig := fn.Type().(*types.Signature)
	args := e.evArgs(n, sig)
	return e.g().callInterface(e, fn, recv, args, n)
}

func (e *Ev) callExternal(fn *types.Func, recv *Term, n *ast.CallExpr) Term {
	sig := fn.Type().(*types.Signature)
	// generic functions: use the instantiated signature of this call
	if !e.spec {
		if tv, ok := e.g().P.Info.Types[n.Fun]; ok {
			if is, ok := tv.Type.(*types.Signature); ok {
				sig = is
			}
		}
	}
	e.instSig = sig
	e.noPack = true // a dependency's variadic arguments are passed as they are (deterministic function of the items)
	args := e.evArgs(n, sig)
	e.noPack = false
	r := e.callExternalArgs(fn, recv, args, n)
	e.instSig = nil
	return r
}

func (e *Ev) callExternalArgs(fn *types.Func, recv *Term, args []Term, n *ast.CallExpr) Term {
	return e.g().callExternal(e, fn, recv, args, n)
}

func splitTopSpaces(s string) []string {
	var out []string
	depth := 0
	cur := ""
	for _, c := range s {
		switch {
		case c == '(' || c == '[':
			depth++
			cur += string(c)
		case c == ')' || c == ']':
			depth--
			cur += string(c)
		case (c == ' ' || c == '\t') && depth == 0:
			if cur != "" {
				out = append(out, cur)
				cur = ""
			}
		default:
			cur += string(c)
		}
	}
	if cur != "" {
		out = append(out, cur)
	}
	return out
}

// modItem resolves a modifies item to (heap name, heap sort, exception ref term or "").
// Items: HEAPNAME | * | elems(sliceExpr) | fields(ptrExpr)
func (e *Ev) modItem(item string, ce *Ev) (name, sort, ref string, ok bool) {
	switch {
	case strings.HasPrefix(item, "elems(") && strings.HasSuffix(item, ")"):
		t := ce.evSpec(item[6 : len(item)-1])
		if t.Sort != sSlice || t.T == nil {
			e.errorf(nil, "modifies %s: not a slice", item)
			return
		}
		st, isS := t.T.Underlying().(*types.Slice)
		if !isS {
			e.errorf(nil, "modifies %s: not a slice type", item)
			return
		}
		es := ce.sortOf(st.Elem())
		return "A$" + sanitize(es), fmt.Sprintf("(Array Int (Array Int %s))", es), app("sarr", t.S), true
	case strings.HasPrefix(item, "fields(") && strings.HasSuffix(item, ")"):
		t := ce.evSpec(item[7 : len(item)-1])
		pt, isP := t.T.Underlying().(*types.Pointer)
		if !isP {
			e.errorf(nil, "modifies %s: not a pointer", item)
			return
		}
		s := ce.sortOf(pt.Elem())
		return "H$" + sanitize(s), fmt.Sprintf("(Array Int %s)", s), t.S, true
	}
	return item, "", "", true
}

// havocItem havocs what a modifies item allows to change.
func (e *Ev) havocItem(item string, ce *Ev) {
	if strings.HasPrefix(item, "allbut(") && strings.HasSuffix(item, ")") {
		keep := map[string]bool{}
		for _, k := range strings.Split(item[7:len(item)-1], ",") {
			keep[strings.TrimSpace(k)] = true
		}
		for _, k := range sortedHeapNames(e.st.heaps) {
			if !keep[k] && !strings.HasPrefix(k, "G$") {
				e.havocHeap(k)
			}
		}
		return
	}
	name, sort, ref, ok := e.modItem(item, ce)
	if !ok {
		return
	}
	if ref == "" {
		e.havocHeap(name)
		return
	}
	h := e.heap(name, sort)
	nm := e.g().freshName(name)
	e.st.declare(nm, sort)
	e.define(fmt.Sprintf("(forall ((a Int)) (! (=> (not (= a %s)) (= (select %s a) (select %s a))) :pattern ((select %s a))))", ref, nm, h, nm))
	e.st.heaps[name] = Term{S: nm, Sort: sort}
	e.u.noteWrite(name)
}

// revealed: does the unit ask for the postconditions of the pure function key (`reveal KEY...`)?
func (u *Unit) revealed(key string) bool {
	if u.lemmaReveal != nil {
		// while a lemma's clauses are instantiated, pure functions stay opaque (the lemma is the fact)
		return false
	}
	for _, b := range []*Block{u.block, u.caseBlock} {
		if b == nil {
			continue
		}
		for _, k := range strings.Fields(b.Flags["reveal"]) {
			if k == key || k == "*" {
				return true
			}
		}
	}
	return false
}

// allocHeap resolves an `allocates` item: a struct type name (objects of that type) or
// elems(T) (backing arrays with elements of Go type T) or a heap name.
func (e *Ev) allocHeap(item string, bv bool) (string, string) {
	if strings.HasPrefix(item, "elems(") && strings.HasSuffix(item, ")") {
		tx, err := parser.ParseExpr(item[6 : len(item)-1])
		if err != nil {
			e.errorf(nil, "allocates %s", item)
			return "", ""
		}
		t := e.evType(tx)
		if t == nil {
			e.errorf(nil, "allocates %s: unknown type", item)
			return "", ""
		}
		es := e.g().sortOf(t, bv)
		return "A$" + sanitize(es), fmt.Sprintf("(Array Int (Array Int %s))", es)
	}
	if strings.Contains(item, "$") {
		if s, ok := e.g().heapSorts[item]; ok {
			return item, s
		}
		if t, ok := e.st.heaps[item]; ok {
			return item, t.Sort
		}
		return "", ""
	}
	obj := e.g().P.Pkg.Types.Scope().Lookup(item)
	tn, ok := obj.(*types.TypeName)
	if !ok {
		e.errorf(nil, "allocates %s: not a type", item)
		return "", ""
	}
	s := e.g().sortOf(tn.Type(), bv)
	return "H$" + sanitize(s), fmt.Sprintf("(Array Int %s)", s)
}

// calleePanic records a panic raised inside a callee. On a path protected by a recover handler
// the handler will run in the state the callee left behind: what the callee may modify is havoced
// in that state (nothing is known about a callee's intermediate states).
func (e *Ev) calleePanic(cond, why string, n ast.Node, modItems []string, ce *Ev) {
	if e.spec || e.quiet || cond == "false" {
		return
	}
	if _, prot := e.st.named["$protected"]; prot && !e.u.inHandler && len(modItems) > 0 {
		ps := e.st.clone()
		pe := &Ev{u: e.u, st: ps, old: e.old, bv: e.bv, bound: map[string]Term{}, guard: append([]string(nil), e.guard...)}
		for _, h := range modItems {
			pe.havocItem(h, ce)
		}
		// locations passed by copy-in/copy-out receive what the callee left in the temporary
		for _, pr := range e.matPairs {
			pe.store(pr[1], pe.load(pr[0], n), n)
		}
		e.u.panicExit(ps, smtAnd(e.guardCond(), cond), why, n)
		e.st.branch(smtImp(e.guardCond(), smtNot(cond)))
		return
	}
	e.panicIf(cond, why, n)
}

// assumableAtCallSite: a postcondition over the callee's own ghost call counters (calls("KEY"))
// says nothing about the caller's counters and must not be assumed in the caller's state (there
// it would read e.g. `0 == 1` and make the rest of the path vacuous: DESIGN 11.6 E14).
func assumableAtCallSite(c Clause) bool {
	return !strings.Contains(c.Text, "calls(")
}

// callCount: the ghost counter of calls to key on this path. After a loop head the counters are
// unknown (the loop body may have called anything any number of times) unless a loop invariant
// pins them down.
func (e *Ev) callCount(key string) string {
	if t, ok := e.st.named["$calls:"+key]; ok {
		return t.S
	}
	if _, unk := e.st.named["$callsUnknown"]; unk {
		c := e.g().freshName("calls$" + sanitize(key))
		e.st.declare(c, sInt)
		e.st.assume(app(">=", c, "0"))
		e.st.named["$calls:"+key] = Term{S: c, Sort: sInt}
		return c
	}
	return "0"
}

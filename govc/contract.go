package main

import (
	"bufio"
	"fmt"
	"os"
	"regexp"
	"strconv"
	"strings"
)

// Clause is one line of a contract block.
type Clause struct {
	Kind  string   // requires, ensures, invariant, decreases, panics_iff, nopanic, modifies, assert, assume, ...
	Name  string   // optional #name
	Props []string // optional @Cxx tags (else inherited from block)
	Text  string
	Line  int
}

// Block is a contract block attached to a target.
type Block struct {
	Kind    string // func, spec, functype, lemma, table
	Target  string // function key
	Case    string // case label ("" if none)
	Loop    int    // loop ordinal (-1 if none)
	Closure int    // closure ordinal (-1 if none)
	Context bool
	Handler bool
	Header  string
	Props   []string
	Clauses []Clause
	Line    int
	Flags   map[string]string // intmode, pure, inline, trusted, ...
}

func (b *Block) ID() string {
	s := b.Target
	if b.Case != "" {
		s += "[" + b.Case + "]"
	}
	if b.Closure >= 0 {
		s += fmt.Sprintf("/closure%d", b.Closure)
	}
	if b.Loop >= 0 {
		s += fmt.Sprintf("/loop%d", b.Loop)
	}
	if b.Context {
		s += "/context"
	}
	if b.Handler {
		s += "/handler"
	}
	return s
}

func (b *Block) clauses(kind string) []Clause {
	var out []Clause
	for _, c := range b.Clauses {
		if c.Kind == kind {
			out = append(out, c)
		}
	}
	return out
}

func (b *Block) flag(k string) (string, bool) {
	v, ok := b.Flags[k]
	return v, ok
}

type Contracts struct {
	Blocks []*Block
	byID   map[string]*Block
	Specs  map[string]*Block // spec functions by name
	File   string
}

var clauseRe = regexp.MustCompile(`^([a-z_]+)(#[A-Za-z0-9_.\-]+)?((?:\s+@C[0-9]+)*)\s*(.*)$`)

var flagKinds = map[string]bool{"intmode": true, "pure": true, "inline": true, "trusted": true, "external": true, "nopanic": true, "property": true, "bound": true, "opaque": true, "reads": true, "mayPanic": true, "ghostret": true, "unroll": true, "axioms": true, "noctx": true, "reveal": true, "nonnilcaptures": true, "nostack": true, "appendfwd": true, "implements": true, "frame": true, "splitpaths": true, "named": true}

func parseContracts(path string) (*Contracts, error) {
	f, err := os.Open(path)
	if err != nil {
		return nil, err
	}
	defer f.Close()
	cs := &Contracts{byID: map[string]*Block{}, Specs: map[string]*Block{}, File: path}
	sc := bufio.NewScanner(f)
	sc.Buffer(make([]byte, 1<<20), 1<<20)
	var cur *Block
	ln := 0
	for sc.Scan() {
		ln++
		line := sc.Text()
		if !strings.HasPrefix(line, "//@") {
			continue
		}
		body := strings.TrimRight(line[3:], " \t")
		if strings.TrimSpace(body) == "" {
			continue
		}
		indented := strings.HasPrefix(body, "  ") || strings.HasPrefix(body, "\t")
		txt := strings.TrimSpace(body)
		if strings.HasPrefix(txt, "--") { // comment inside contract file
			continue
		}
		if !indented {
			// block header
			cur = &Block{Loop: -1, Closure: -1, Line: ln, Header: txt, Flags: map[string]string{}}
			fields := strings.Fields(txt)
			cur.Kind = fields[0]
			switch cur.Kind {
			case "func":
				// func KEY [case L] [closure N] [loop N] [context]
				rest := fields[1:]
				if len(rest) == 0 {
					return nil, fmt.Errorf("%s:%d: func needs a target", path, ln)
				}
				cur.Target = rest[0]
				rest = rest[1:]
				for len(rest) > 0 {
					switch rest[0] {
					case "case":
						cur.Case = rest[1]
						rest = rest[2:]
					case "loop":
						cur.Loop, _ = strconv.Atoi(rest[1])
						rest = rest[2:]
					case "closure":
						cur.Closure, _ = strconv.Atoi(rest[1])
						rest = rest[2:]
					case "context":
						cur.Context = true
						rest = rest[1:]
					case "handler":
						cur.Handler = true
						rest = rest[1:]
					default:
						return nil, fmt.Errorf("%s:%d: bad header %q", path, ln, txt)
					}
				}
			case "spec", "lemma", "functype", "table", "rule", "ghost", "typeinv", "extern", "axiom":
				cur.Target = strings.Join(strings.Fields(txt[len(cur.Kind):]), " ")
			default:
				return nil, fmt.Errorf("%s:%d: unknown block kind %q", path, ln, cur.Kind)
			}
			cs.Blocks = append(cs.Blocks, cur)
			continue
		}
		if cur == nil {
			return nil, fmt.Errorf("%s:%d: clause outside block", path, ln)
		}
		if strings.HasPrefix(txt, "|") { // continuation
			if len(cur.Clauses) == 0 {
				return nil, fmt.Errorf("%s:%d: continuation without clause", path, ln)
			}
			cur.Clauses[len(cur.Clauses)-1].Text += " " + strings.TrimSpace(txt[1:])
			continue
		}
		m := clauseRe.FindStringSubmatch(txt)
		if m == nil {
			return nil, fmt.Errorf("%s:%d: cannot parse clause %q", path, ln, txt)
		}
		kind := m[1]
		if flagKinds[kind] {
			if kind == "property" {
				cur.Props = append(cur.Props, strings.Fields(m[4])...)
			} else {
				cur.Flags[kind] = strings.TrimSpace(m[4])
			}
			continue
		}
		c := Clause{Kind: kind, Text: strings.TrimSpace(m[4]), Line: ln}
		if m[2] != "" {
			c.Name = m[2][1:]
		}
		for _, p := range strings.Fields(m[3]) {
			c.Props = append(c.Props, p[1:])
		}
		cur.Clauses = append(cur.Clauses, c)
	}
	for _, b := range cs.Blocks {
		switch b.Kind {
		case "func":
			id := b.ID()
			if cs.byID[id] != nil {
				return nil, fmt.Errorf("%s:%d: duplicate contract for %s", path, b.Line, id)
			}
			cs.byID[id] = b
		case "spec", "ghost":
			name := b.Target
			if i := strings.Index(name, "("); i >= 0 {
				name = name[:i]
			}
			cs.Specs[strings.TrimSpace(name)] = b
		default:
			cs.byID[b.Kind+":"+b.Target] = b
		}
	}
	return cs, sc.Err()
}

func (cs *Contracts) forFunc(key string) *Block { return cs.byID[key] }
func (cs *Contracts) forCase(key, label string) *Block {
	return cs.byID[key+"["+label+"]"]
}

// clauseProps returns the property tags of a clause (own tags, else the block's).
func clauseProps(b *Block, c Clause) []string {
	if len(c.Props) > 0 {
		return c.Props
	}
	return b.Props
}

func hasProp(props []string, id string) bool {
	for _, p := range props {
		if p == id {
			return true
		}
	}
	return false
}

package main

import (
	"encoding/json"
	"fmt"
	"go/ast"
	"go/types"
	"os"
	"path/filepath"
	"sort"
)

// Renamed locals. Contracts name local variables of the functions they annotate. A pure rename of
// a local would make such a contract inapplicable although nothing changed. `govc locals` records,
// for every function of the package, the locals in order of definition with their types
// (/verif/contracts/locals.json, committed together with the contracts). When a contract
// identifier does not resolve by name, and the function still defines the same number of locals
// with the same types in the same order as recorded, the identifier is bound to the local now
// standing at the recorded position. Anything else (a local added, removed, retyped or reordered)
// leaves the identifier unresolved, i.e. the contract no longer applies.

type localDef struct {
	Name string `json:"name"`
	Type string `json:"type"`
}

func (p *Prog) localsOf(fd *ast.FuncDecl) ([]localDef, []types.Object) {
	var defs []localDef
	var objs []types.Object
	if fd == nil || fd.Body == nil {
		return nil, nil
	}
	type item struct {
		pos int
		o   types.Object
	}
	var items []item
	ast.Inspect(fd.Body, func(n ast.Node) bool {
		id, ok := n.(*ast.Ident)
		if !ok {
			return true
		}
		if o, ok := p.Info.Defs[id].(*types.Var); ok && o != nil && !o.IsField() && id.Name != "_" {
			items = append(items, item{int(id.Pos()), o})
		}
		return true
	})
	sort.Slice(items, func(i, j int) bool { return items[i].pos < items[j].pos })
	for _, it := range items {
		defs = append(defs, localDef{Name: it.o.Name(), Type: types.TypeString(it.o.Type(), func(*types.Package) string { return "" })})
		objs = append(objs, it.o)
	}
	return defs, objs
}

func runLocals() int {
	prog, err := loadProg(repoDir())
	if err != nil {
		fmt.Fprintln(os.Stderr, err)
		return 2
	}
	out := map[string][]localDef{}
	for key, fd := range prog.Funcs {
		if d, _ := prog.localsOf(fd); len(d) > 0 {
			out[key] = d
		}
	}
	b, _ := json.MarshalIndent(out, "", " ")
	path := filepath.Join(verifDir(), "contracts", "locals.json")
	os.MkdirAll(filepath.Dir(path), 0o755)
	if err := os.WriteFile(path, b, 0o644); err != nil {
		fmt.Fprintln(os.Stderr, err)
		return 2
	}
	fmt.Printf("%d functions recorded in %s\n", len(out), path)
	return 0
}

var recordedLocals map[string][]localDef

func loadRecordedLocals() map[string][]localDef {
	if recordedLocals != nil {
		return recordedLocals
	}
	recordedLocals = map[string][]localDef{}
	if b, err := os.ReadFile(filepath.Join(verifDir(), "contracts", "locals.json")); err == nil {
		json.Unmarshal(b, &recordedLocals)
	}
	return recordedLocals
}

// renamedLocal resolves a contract identifier that names no variable any more (see above).
func (e *Ev) renamedLocal(name string) types.Object {
	if e.u == nil || e.u.fd == nil {
		return nil
	}
	key := funcKey(e.u.fd)
	rec := loadRecordedLocals()[key]
	if len(rec) == 0 {
		return nil
	}
	cur, objs := e.g().P.localsOf(e.u.fd)
	if len(cur) != len(rec) {
		return nil
	}
	idx := -1
	for i := range rec {
		if rec[i].Type != cur[i].Type {
			return nil
		}
		if rec[i].Name == name {
			if idx >= 0 {
				return nil // ambiguous: two recorded locals of that name (shadowing)
			}
			idx = i
		}
	}
	if idx < 0 || cur[idx].Name == name {
		return nil
	}
	// the renamed variable must be in scope where the contract clause is evaluated
	if e.pos.IsValid() {
		sc := e.g().P.Pkg.Types.Scope().Innermost(e.pos)
		if sc == nil {
			return nil
		}
		if _, o := sc.LookupParent(cur[idx].Name, e.pos); o != objs[idx] {
			return nil
		}
	}
	e.g().Notes = append(e.g().Notes, fmt.Sprintf("%s: contract identifier %s bound to the renamed local %s (same position and type as recorded)", e.u.name, name, cur[idx].Name))
	return objs[idx]
}

package main

import (
	"os"
	"runtime/debug"
	"fmt"
	"go/ast"
	"go/parser"
	"go/token"
	"go/types"
	"sort"
	"strings"
)

// Unit is one verification unit: a function, a case of a switch inside a function, or a closure.
type Unit struct {
	pendingRhs *Term // results of a call executed in place, to be assigned by the enclosing assignment
	inHandler bool
	handlerLit *ast.FuncLit // the recover handler of the unit, if any
	caught     []*PanicExit  // panics raised on protected paths (handled)
	defTag map[string]string // user axiom formula -> axiom block name
	invTag map[string]string // assumed loop-invariant formula -> loopID#name
	g       *Gen
	name    string
	block   *Block
	fd      *ast.FuncDecl
	sig     *types.Signature
	bv      bool
	decls   []string
	defs    []string // definitional equalities, valid on every path
	entry   *State
	props   []string
	writes  map[string]bool
	panicN  map[token.Pos]int
	whyN    map[string]int
	exits   []*Exit
	panics  []*PanicExit
	resVars []*types.Var
	bodyPos token.Pos
	inits   map[string]Term // initial heaps
	paths   int
	handler bool // unit has a recover handler: panics are caught
	modAll  bool
	inputs  []ModelVar
	quietPanics bool
	caseBody ast.Node
	caseClause *ast.CaseClause
	caseSwitch *ast.SwitchStmt
	caseBlock *Block
	caseEntry *State
	closureLit *ast.FuncLit
	caseExits []*State
	unreachable bool
	wfDone map[string]bool
	tinvDone map[string]bool
	loopKeepSets [][]string
	lemma bool
	inCase bool
	lemmaReveal *Block
	side *lemmaSide
	lemmaStep int
	lemmaLast bool
	sepDefs []string
	casePanicBase int
	siteN   map[token.Pos]int
	inlineDepth int
	resNamesOverride []string
}

type Exit struct {
	st       *State
	results  []Term
	fromCase bool
}

type PanicExit struct {
	pc   []string
	cond string
	why  string
	pos  string
	st   *State
}

const maxPaths = 400

func (u *Unit) initialHeap(name, sort string) Term {
	if t, ok := u.inits[name]; ok {
		return t
	}
	nm := name + "@0"
	nm = strings.ReplaceAll(nm, "@", "!")
	u.decls = append(u.decls, fmt.Sprintf("(declare-const %s %s)", nm, sort))
	t := Term{S: nm, Sort: sort}
	u.inits[name] = t
	u.nonFreshAxioms(nm, sort)
	if u.entry != nil {
		if _, ok := u.entry.heaps[name]; !ok {
			u.entry.heaps[name] = t
		}
	}
	return t
}

func (u *Unit) noteWrite(name string) {
	if u.writes == nil {
		u.writes = map[string]bool{}
	}
	u.writes[name] = true
	if d := os.Getenv("VERIF_DEBUGWRITE"); d != "" && d == u.name+":"+name {
		debug.PrintStack()
	}
}

func (u *Unit) panicExit(st *State, cond, why string, n ast.Node) {
	if u.quietPanics {
		return
	}
	pos := ""
	if n != nil && n.Pos().IsValid() {
		pos = u.g.P.pos(n)
	}
	pe := &PanicExit{pc: append([]string(nil), st.pc...), cond: cond, why: why, pos: pos, st: st.clone()}
	if _, prot := st.named["$protected"]; prot && !u.inHandler {
		u.caught = append(u.caught, pe)
		return
	}
	u.panics = append(u.panics, pe)
}

// topLevelStmt: is s a statement of the function body's top-level list?
func (u *Unit) topLevelStmt(s ast.Stmt) bool {
	if u.fd == nil || u.fd.Body == nil {
		return false
	}
	for _, t := range u.fd.Body.List {
		if t == s {
			return true
		}
	}
	return false
}

// runHandler executes the recover handler from the state of every caught panic: its normal
// completion is a normal return of the function (named results as assigned by the handler), a
// panic inside it escapes.
func (u *Unit) runHandler(flow Flow) {
	if u.handlerLit == nil {
		return
	}
	caught := u.caught
	u.caught = nil
	u.inHandler = true
	for _, p := range caught {
		hs := p.st.clone()
		hs.branch(p.cond)
		delete(hs.named, "$protected")
		r := u.g.freshName("recovered")
		hs.declare(r, sObj)
		hs.assume(smtNot(smtEq(r, "(mkObj 0 0 str_empty)")))
		hs.named["$recovered"] = Term{S: r, Sort: sObj, T: types.Universe.Lookup("any").Type()}
		if lb := u.g.C.byID[u.contractID()+"/handler"]; lb != nil {
			for _, c := range lb.clauses("assume") {
				e := u.specEv(hs, u.handlerLit.Body.Lbrace+1)
				hs.assume(e.evSpec(c.Text).S)
				u.g.Assumed["assumed when the recover handler of "+u.name+" runs (not proved): "+c.Text] = true
			}
		}
		hf := Flow{ret: flow.ret}
		hf.next = func(s *State) {
			var res []Term
			for _, rv := range u.resVars {
				res = append(res, s.vars[rv])
			}
			flow.ret(s, res)
		}
		u.execList(u.handlerLit.Body.List, hs, hf)
	}
	u.inHandler = false
}

func (u *Unit) newEv(st *State) *Ev {
	return &Ev{u: u, st: st, old: u.entry, bv: u.bv, bound: map[string]Term{}}
}

func (u *Unit) specEv(st *State, pos token.Pos) *Ev {
	e := u.newEv(st)
	e.spec = true
	e.pos = pos
	return e
}

// Flow carries the continuations of structured control flow.
type Flow struct {
	next func(*State)
	brk  func(*State)
	cont func(*State)
	ret  func(*State, []Term)
}

func (u *Unit) execList(list []ast.Stmt, st *State, f Flow) {
	if st.dead {
		return
	}
	if len(list) == 0 {
		f.next(st)
		return
	}
	f2 := f
	f2.next = func(s *State) {
		u.ghostAsserts(list[0], s)
		u.execList(list[1:], s, f)
	}
	u.exec(list[0], st, f2)
}

// ghostAsserts: `assert @K expr` clauses are checked (and then assumed) after the K-th top-level
// statement of the unit's body (case body for case units). They are proof cuts that guide the solver.
func (u *Unit) ghostAsserts(done ast.Stmt, st *State) {
	var body []ast.Stmt
	var b *Block
	switch {
	case u.caseClause != nil:
		body, b = u.caseClause.Body, u.caseBlock
	case u.closureLit != nil:
		body, b = u.closureLit.Body.List, u.block
	case u.fd != nil:
		body, b = u.fd.Body.List, u.block
	}
	if b == nil {
		return
	}
	k := -1
	where := ""
	for i, s := range body {
		if s == done {
			k = i
		}
	}
	if k < 0 && u.caseClause != nil && u.fd != nil && u.fd.Body != nil {
		// a case unit runs on to the end of the function: a top-level statement after the switch
		// is addressed through the function's own block (`assert @K` there)
		for i, s := range u.fd.Body.List {
			if s == done {
				if fb := u.g.C.forFunc(funcKey(u.fd)); fb != nil {
					k, b, body = i, fb, u.fd.Body.List
				}
			}
		}
	}
	if k < 0 {
		// a statement of a loop body: addressed as @L<loop ordinal>.<statement ordinal>
		var root ast.Node
		switch {
		case u.caseClause != nil:
			root = u.caseClause
		case u.closureLit != nil:
			root = u.closureLit.Body
		case u.fd != nil:
			root = u.fd.Body
		}
		if root != nil {
			for li, l := range loopsIn(root) {
				var lb *ast.BlockStmt
				switch x := l.(type) {
				case *ast.ForStmt:
					lb = x.Body
				case *ast.RangeStmt:
					lb = x.Body
				}
				for i, s := range lb.List {
					if s == done {
						k = i
						where = fmt.Sprintf("L%d.", li)
					}
				}
			}
		}
	}
	// a statement can also be addressed by the variable it defines: @def:NAME (robust against
	// statements being inserted before it; works at any nesting depth)
	defTag := ""
	if as, ok := done.(*ast.AssignStmt); ok && as.Tok == token.DEFINE {
		for _, l := range as.Lhs {
			if id, ok := l.(*ast.Ident); ok && id.Name != "_" {
				defTag = "@def:" + id.Name
				break
			}
		}
	}
	if k < 0 && defTag == "" {
		return
	}
	hasTag := func(text, tag string) bool {
		return (k >= 0 && strings.HasPrefix(text, tag+" ")) || (defTag != "" && strings.HasPrefix(text, defTag+" "))
	}
	for i, c := range b.clauses("assert") {
		rest := c.Text
		tag := fmt.Sprintf("@%s%d", where, k)
		if !hasTag(c.Text, tag) {
			continue
		}
		at := k
		rest = strings.TrimSpace(rest[strings.Index(rest, " "):])
		e := u.specEv(st, done.End())
		if u.caseEntry != nil && u.caseClause != nil {
			e.old = u.caseEntry
		}
		t := e.evSpec(rest)
		name := c.Name
		if name == "" {
			name = fmt.Sprint(i)
		}
		u.addObl(fmt.Sprintf("%s/assert#%s", b.ID(), name), clauseProps(b, c), st, t.S, "ghost assertion after statement "+fmt.Sprint(at)+": "+rest, nil)
		st.assume(t.S)
	}
	// `assume @K expr`: a fact taken for granted after statement K (reported as an assumption)
	for _, c := range b.clauses("assume") {
		tag := fmt.Sprintf("@%s%d", where, k)
		if !hasTag(c.Text, tag) {
			continue
		}
		rest := strings.TrimSpace(c.Text[strings.Index(c.Text, " "):])
		e := u.specEv(st, done.End())
		if u.caseEntry != nil && u.caseClause != nil {
			e.old = u.caseEntry
		}
		st.assume(e.evSpec(rest).S)
		u.g.Assumed["assumed in "+b.ID()+" after statement "+fmt.Sprint(k)+" (not proved): "+rest] = true
	}
}

func (u *Unit) fork(st *State, cond string) *State {
	n := st.clone()
	n.branch(cond)
	u.paths++
	if u.paths > maxPaths {
		u.g.errorf("%s: too many paths (> %d)", u.name, maxPaths)
		n.dead = true
	}
	return n
}

func (u *Unit) exec(s ast.Stmt, st *State, f Flow) {
	if st.dead {
		return
	}
	e := u.newEv(st)
	switch n := s.(type) {
	case *ast.BlockStmt:
		u.execList(n.List, st, f)
	case *ast.EmptyStmt:
		f.next(st)
	case *ast.ExprStmt:
		if call, ok := n.X.(*ast.CallExpr); ok && u.inlineStmtCall(call, st, func(s *State, res []Term) { f.next(s) }) {
			return
		}
		e.ev(n.X)
		f.next(st)
	case *ast.AssignStmt:
		if len(n.Rhs) == 1 && (n.Tok == token.DEFINE || n.Tok == token.ASSIGN) {
			if call, ok := n.Rhs[0].(*ast.CallExpr); ok {
				if u.inlineStmtCall(call, st, func(s *State, res []Term) {
					ee := u.newEv(s)
					var rhs Term
					if len(res) == 1 {
						rhs = res[0]
					} else {
						rhs = Term{Sort: "tuple", Tuple: res}
					}
					u.pendingRhs = &rhs
					u.assign(ee, n)
					f.next(s)
				}) {
					return
				}
			}
		}
		u.assign(e, n)
		f.next(st)
	case *ast.IncDecStmt:
		loc := e.lvalue(n.X)
		if loc != nil {
			cur := e.load(loc, n)
			one := e.uconst("1")
			op := token.ADD
			if n.Tok == token.DEC {
				op = token.SUB
			}
			e.store(loc, e.binop(op, cur, one, n), n)
		}
		f.next(st)
	case *ast.DeclStmt:
		gd := n.Decl.(*ast.GenDecl)
		for _, sp := range gd.Specs {
			vs, ok := sp.(*ast.ValueSpec)
			if !ok {
				continue
			}
			for i, id := range vs.Names {
				obj, isVar := u.g.P.Info.Defs[id].(*types.Var)
				if !isVar {
					continue // constants are resolved by the type checker
				}
				var v Term
				if i < len(vs.Values) {
					v = e.toType(e.ev(vs.Values[i]), obj.Type(), n)
				} else {
					v = u.g.zero(obj.Type(), u.bv)
				}
				u.defineVar(e, obj, v, n)
			}
		}
		f.next(st)
	case *ast.ReturnStmt:
		var res []Term
		if len(n.Results) == 0 && len(u.resVars) > 0 {
			for _, rv := range u.resVars {
				res = append(res, e.objTerm(rv, n))
			}
		} else if len(n.Results) == 1 && u.sig != nil && u.sig.Results().Len() > 1 {
			t := e.ev(n.Results[0])
			res = t.Tuple
		} else {
			for i, r := range n.Results {
				v := e.ev(r)
				if u.sig != nil && i < u.sig.Results().Len() {
					v = e.toType(v, u.sig.Results().At(i).Type(), n)
				}
				res = append(res, e.nameTerm(v, "ret"))
			}
		}
		f.ret(st, res)
	case *ast.IfStmt:
		if n.Init != nil {
			f2 := f
			f2.next = func(s2 *State) {
				n2 := *n
				n2.Init = nil
				u.exec(&n2, s2, f)
			}
			u.exec(n.Init, st, f2)
			return
		}
		c := e.ev(n.Cond)
		thenSt := u.fork(st, c.S)
		elseSt := u.fork(st, smtNot(c.S))
		u.exec(n.Body, thenSt, f)
		if n.Else != nil {
			u.exec(n.Else, elseSt, f)
		} else {
			f.next(elseSt)
		}
	case *ast.SwitchStmt:
		u.execSwitch(n, st, f)
	case *ast.TypeSwitchStmt:
		u.execTypeSwitch(n, st, f)
	case *ast.ForStmt:
		u.execFor(n, st, f)
	case *ast.RangeStmt:
		u.execRange(n, st, f)
	case *ast.BranchStmt:
		if n.Label != nil {
			u.g.errorf("%s: %s: labelled branch unsupported", u.name, u.g.P.pos(n))
			return
		}
		switch n.Tok {
		case token.BREAK:
			if f.brk == nil {
				u.g.errorf("%s: break outside loop/switch", u.name)
				return
			}
			f.brk(st)
		case token.CONTINUE:
			f.cont(st)
		default:
			u.g.errorf("%s: %s: unsupported branch %v", u.name, u.g.P.pos(n), n.Tok)
		}
	case *ast.DeferStmt:
		// only `defer func(){ if r := recover(); r != nil {...} }()` at the top level of the body:
		// from here on the path is protected (panics are caught and the handler body runs)
		if !isRecoverHandler(n) || !u.topLevelStmt(n) {
			u.g.errorf("%s: %s: defer outside supported pattern", u.name, u.g.P.pos(n))
		} else {
			u.handler = true
			u.handlerLit = n.Call.Fun.(*ast.FuncLit)
			st.named["$protected"] = Term{S: "true", Sort: sBool}
		}
		f.next(st)
	default:
		u.g.errorf("%s: %s: unsupported statement %T", u.name, u.g.P.pos(s), s)
	}
}

func (u *Unit) defineVar(e *Ev, obj *types.Var, v Term, n ast.Node) {
	v = e.toType(v, obj.Type(), n)
	v = e.nameTerm(v, obj.Name())
	if u.isBoxed(obj) {
		r := e.freshRef("box$" + obj.Name())
		loc := &Loc{Kind: "heap", Name: e.heapName(obj.Type()), Ref: r, T: obj.Type()}
		if _, isStruct := obj.Type().Underlying().(*types.Struct); !isStruct {
			loc = &Loc{Kind: "heap", Name: "B$" + sanitize(e.sortOf(obj.Type())), Ref: r, T: obj.Type()}
		}
		e.st.boxed[obj] = loc
		e.store(loc, v, n)
		return
	}
	e.st.vars[obj] = v
}

// isBoxed: variables whose address is taken or that are captured by closures are boxed.
func (u *Unit) isBoxed(obj *types.Var) bool {
	return u.g.boxedVars()[obj]
}

func (u *Unit) assign(e *Ev, n *ast.AssignStmt) {
	if n.Tok != token.ASSIGN && n.Tok != token.DEFINE {
		// op-assign
		loc := e.lvalue(n.Lhs[0])
		if loc == nil {
			return
		}
		cur := e.load(loc, n)
		rhs := e.ev(n.Rhs[0])
		var op token.Token
		switch n.Tok {
		case token.ADD_ASSIGN:
			op = token.ADD
		case token.SUB_ASSIGN:
			op = token.SUB
		case token.MUL_ASSIGN:
			op = token.MUL
		case token.QUO_ASSIGN:
			op = token.QUO
		case token.REM_ASSIGN:
			op = token.REM
		case token.AND_ASSIGN:
			op = token.AND
		case token.OR_ASSIGN:
			op = token.OR
		case token.XOR_ASSIGN:
			op = token.XOR
		case token.SHL_ASSIGN:
			op = token.SHL
		case token.SHR_ASSIGN:
			op = token.SHR
		default:
			e.errorf(n, "op-assign %v", n.Tok)
			return
		}
		e.store(loc, e.nameTerm(e.binop(op, cur, rhs, n), "t"), n)
		return
	}
	// phase 1: left operands, then right values
	type target struct {
		loc *Loc
		def *types.Var
	}
	var targets []target
	for _, l := range n.Lhs {
		if id, ok := l.(*ast.Ident); ok {
			if id.Name == "_" {
				targets = append(targets, target{loc: &Loc{Kind: "blank"}})
				continue
			}
			if n.Tok == token.DEFINE {
				if obj, ok := u.g.P.Info.Defs[id].(*types.Var); ok && obj != nil {
					targets = append(targets, target{def: obj})
					continue
				}
			}
		}
		targets = append(targets, target{loc: e.lvalue(l)})
	}
	var vals []Term
	if u.pendingRhs != nil {
		// the right-hand side was a call executed in place: its results
		if u.pendingRhs.Sort == "tuple" {
			vals = u.pendingRhs.Tuple
		} else {
			vals = []Term{*u.pendingRhs}
		}
		u.pendingRhs = nil
	} else if len(n.Rhs) == 1 && len(n.Lhs) > 1 {
		vals = u.multiValue(e, n.Rhs[0], len(n.Lhs))
	} else {
		for _, r := range n.Rhs {
			vals = append(vals, e.ev(r))
		}
	}
	if len(vals) != len(targets) {
		e.errorf(n, "assignment arity mismatch %d vs %d", len(vals), len(targets))
		return
	}
	for i, t := range targets {
		v := vals[i]
		if t.def != nil {
			u.defineVar(e, t.def, v, n)
			continue
		}
		if t.loc == nil || t.loc.Kind == "blank" {
			continue
		}
		v = e.toType(v, t.loc.T, n)
		e.store(t.loc, e.nameTerm(v, "t"), n)
	}
}

// multiValue evaluates an expression in a context needing k values (call, comma-ok forms).
func (u *Unit) multiValue(e *Ev, x ast.Expr, k int) []Term {
	switch n := x.(type) {
	case *ast.ParenExpr:
		return u.multiValue(e, n.X, k)
	case *ast.TypeAssertExpr:
		v, ok := e.typeAssert(n)
		return []Term{v, {S: ok, Sort: sBool, T: types.Typ[types.Bool]}}
	case *ast.IndexExpr:
		xt := u.g.P.Info.Types[n.X].Type
		if mt, ok := xt.Underlying().(*types.Map); ok {
			m := e.ev(n.X)
			key := e.toType(e.ev(n.Index), mt.Key(), n)
			l := &Loc{Kind: "mapelem", Ref: m.S, Idx: key.S, T: mt.Elem(), Name: e.mapHeapBase(mt)}
			return []Term{e.mapLoad(l, n), {S: e.mapHas(l), Sort: sBool, T: types.Typ[types.Bool]}}
		}
	case *ast.CallExpr:
		t := e.ev(n)
		if len(t.Tuple) == k {
			return t.Tuple
		}
		e.errorf(n, "call yields %d values, need %d", len(t.Tuple), k)
		return make([]Term, k)
	}
	e.errorf(x, "unsupported multi-value expression %T", x)
	return make([]Term, k)
}

func (u *Unit) execSwitch(n *ast.SwitchStmt, st *State, f Flow) {
	if n.Init != nil {
		f2 := f
		f2.next = func(s2 *State) {
			n2 := *n
			n2.Init = nil
			u.execSwitch(&n2, s2, f)
		}
		u.exec(n.Init, st, f2)
		return
	}
	if u.caseSwitch == n {
		u.execDesignatedCase(n, st, f)
		return
	}
	e := u.newEv(st)
	var tag Term
	hasTag := n.Tag != nil
	if hasTag {
		tag = e.nameTerm(e.ev(n.Tag), "tag")
	}
	inner := f
	inner.brk = f.next
	var negs []string
	var def *ast.CaseClause
	for _, c := range n.Body.List {
		cc := c.(*ast.CaseClause)
		if cc.List == nil {
			def = cc
			continue
		}
		var alts []string
		for _, x := range cc.List {
			ce := u.newEv(st)
			ce.guard = append(ce.guard, negs...)
			v := ce.ev(x)
			if hasTag {
				alts = append(alts, ce.binop(token.EQL, tag, v, x).S)
			} else {
				alts = append(alts, v.S)
			}
		}
		cond := smtOr(alts...)
		cs := u.fork(st, smtAnd(append(append([]string{}, negs...), cond)...))
		u.checkFallthrough(cc)
		u.execList(cc.Body, cs, inner)
		negs = append(negs, smtNot(cond))
	}
	ds := u.fork(st, smtAnd(negs...))
	if def != nil {
		u.execList(def.Body, ds, inner)
	} else {
		f.next(ds)
	}
}

// loopProps: property tags of a loop obligation: the clause's/loop block's own, plus the unit's.
func (u *Unit) loopProps(lb *Block, c Clause) []string {
	ps := append([]string{}, clauseProps(lb, c)...)
	for _, p := range u.props {
		if !hasProp(ps, p) {
			ps = append(ps, p)
		}
	}
	return ps
}

// execDesignatedCase explores only the case under contract of the designated switch.
func (u *Unit) execDesignatedCase(n *ast.SwitchStmt, st *State, f Flow) {
	e := u.newEv(st)
	var tag Term
	hasTag := n.Tag != nil
	if hasTag {
		tag = e.nameTerm(e.ev(n.Tag), "tag")
	}
	var negs []string
	var guard string
	found := false
	for _, c := range n.Body.List {
		cc := c.(*ast.CaseClause)
		if cc.List == nil {
			if cc == u.caseClause {
				found = true
			}
			continue
		}
		var alts []string
		for _, x := range cc.List {
			ce := u.newEv(st)
			ce.quiet = true
			v := ce.ev(x)
			if hasTag {
				alts = append(alts, ce.binop(token.EQL, tag, v, x).S)
			} else {
				alts = append(alts, v.S)
			}
		}
		cond := smtOr(alts...)
		if cc == u.caseClause {
			// re-evaluate the guard expressions with panic tracking
			for _, x := range cc.List {
				ce := u.newEv(st)
				ce.guard = append(ce.guard, negs...)
				ce.ev(x)
			}
			guard = smtAnd(append(append([]string{}, negs...), cond)...)
			found = true
			break
		}
		negs = append(negs, smtNot(cond))
	}
	if !found {
		u.g.errorf("%s: designated case not found", u.name)
		return
	}
	if guard == "" {
		guard = smtAnd(negs...)
	}
	cs := u.fork(st, guard)
	b := u.caseBlock
	if u.unreachable {
		u.addObl(b.ID()+"/unreachable", u.props, cs, "false", "case without contract is unreachable under the function's precondition", nil)
		u.caseEntry = cs
		return
	}
	pos := u.caseClause.Colon + 1
	if ctx := u.g.C.byID[b.Target+"/context"]; ctx != nil {
		for _, c := range ctx.clauses("requires") {
			ce := u.specEv(cs, pos)
			cs.assume(ce.evSpec(c.Text).S)
		}
	}
	for _, c := range b.clauses("requires") {
		ce := u.specEv(cs, pos)
		cs.assume(ce.evSpec(c.Text).S)
	}
	cov := u.addObl(b.ID()+"/cover", u.props, cs, "false", "case reachable and its requires satisfiable", nil)
	cov.Cover = true
	// ghost call counters of a case contract count the calls made by the case itself
	for k := range cs.named {
		if strings.HasPrefix(k, "$calls:") || k == "$callsUnknown" {
			delete(cs.named, k)
		}
	}
	entry := cs.clone()
	entry.heaps = map[string]Term{}
	for k, v := range cs.heaps {
		entry.heaps[k] = v
	}
	u.caseEntry = entry
	u.casePanicBase = len(u.panics)
	inner := f
	end := func(s *State) {
		u.caseExits = append(u.caseExits, s.clone())
		u.inCase = false
		f.next(s)
		u.inCase = true
	}
	inner.next = end
	inner.brk = end
	u.checkFallthrough(u.caseClause)
	u.inCase = true
	u.execList(u.caseClause.Body, cs, inner)
	u.inCase = false
}

func (u *Unit) checkFallthrough(cc *ast.CaseClause) {
	for _, s := range cc.Body {
		if b, ok := s.(*ast.BranchStmt); ok && b.Tok == token.FALLTHROUGH {
			u.g.errorf("%s: fallthrough unsupported", u.name)
		}
	}
}

func (u *Unit) execTypeSwitch(n *ast.TypeSwitchStmt, st *State, f Flow) {
	e := u.newEv(st)
	var x ast.Expr
	var bind *ast.Ident
	switch a := n.Assign.(type) {
	case *ast.AssignStmt:
		x = a.Rhs[0].(*ast.TypeAssertExpr).X
		bind = a.Lhs[0].(*ast.Ident)
	case *ast.ExprStmt:
		x = a.X.(*ast.TypeAssertExpr).X
	}
	_ = bind
	v := e.nameTerm(e.ev(x), "tsw")
	inner := f
	inner.brk = f.next
	var negs []string
	for _, c := range n.Body.List {
		cc := c.(*ast.CaseClause)
		if cc.List == nil {
			ds := u.fork(st, smtAnd(negs...))
			u.execList(cc.Body, ds, inner)
			continue
		}
		if len(cc.List) != 1 {
			u.g.errorf("%s: multi-type case unsupported", u.name)
			continue
		}
		to := u.g.P.Info.Types[cc.List[0]].Type
		ce := u.newEv(st)
		val, ok := ce.assertTo(v, to, cc)
		cs := u.fork(st, smtAnd(append(append([]string{}, negs...), ok)...))
		if obj, okk := u.g.P.Info.Implicits[cc].(*types.Var); okk && obj != nil {
			cs.vars[obj] = val
		}
		u.execList(cc.Body, cs, inner)
		negs = append(negs, smtNot(ok))
	}
	hasDefault := false
	for _, c := range n.Body.List {
		if c.(*ast.CaseClause).List == nil {
			hasDefault = true
		}
	}
	if !hasDefault {
		f.next(u.fork(st, smtAnd(negs...)))
	}
}

// ---------- loops ----------

// loopBlock returns the contract block of the loop statement within the unit, if any.
// Loops inside the designated case body are keyed under the case; others under the function.
func (u *Unit) loopBlock(s ast.Stmt) *Block {
	if u.caseClause != nil {
		for i, l := range loopsInStmts(u.caseClause.Body) {
			if l == s {
				return u.g.C.byID[u.caseBlock.ID()+fmt.Sprintf("/loop%d", i)]
			}
		}
	}
	if u.closureLit != nil {
		for i, l := range loopsIn(u.closureLit.Body) {
			if l == s {
				return u.g.C.byID[u.block.ID()+fmt.Sprintf("/loop%d", i)]
			}
		}
	}
	all := loopsIn(u.fd.Body)
	for i, l := range all {
		if l == s {
			if b := u.g.C.byID[funcKey(u.fd)+fmt.Sprintf("/loop%d", i)]; b != nil {
				return b
			}
			if i == len(all)-1 {
				// the last loop of a function may be addressed as `loop 9999` (stable when loops are added before it)
				return u.g.C.byID[funcKey(u.fd)+"/loop9999"]
			}
		}
	}
	return nil
}

func loopsInStmts(list []ast.Stmt) []ast.Stmt {
	var out []ast.Stmt
	for _, s := range list {
		out = append(out, loopsIn(s)...)
	}
	return out
}

// loopOblName gives loop obligations a unit-unique, edit-stable name.
func (u *Unit) loopOblName(lb *Block, rest string) string {
	id := lb.ID()
	if strings.HasPrefix(id, u.contractID()) {
		return id + "/" + rest
	}
	k := id[strings.LastIndex(id, "/")+1:]
	return u.contractID() + "/" + k + "/" + rest
}

// assignedIn lists variables (declared outside n) assigned inside n, and whether heaps may be written.
func (u *Unit) assignedIn(n ast.Node) (vars []*types.Var, heapWrite bool) {
	seen := map[*types.Var]bool{}
	// Variables declared inside the loop BODY are fresh in every iteration and need no havoc. A
	// variable declared by the init clause of a three-clause for statement lives across
	// iterations (it is assigned by the post statement) and must be havoced like any outer
	// variable; the key/value variables of a range statement are set by the loop head itself.
	lo, hi := n.Pos(), n.End()
	var rangeVars []token.Pos
	switch l := n.(type) {
	case *ast.ForStmt:
		lo, hi = l.Body.Pos(), l.Body.End()
	case *ast.RangeStmt:
		lo, hi = l.Body.Pos(), l.Body.End()
		for _, kv := range []ast.Expr{l.Key, l.Value} {
			if id, ok := kv.(*ast.Ident); ok && l.Tok == token.DEFINE {
				rangeVars = append(rangeVars, id.Pos())
			}
		}
	}
	local := func(p token.Pos) bool {
		if p >= lo && p < hi {
			return true
		}
		for _, rp := range rangeVars {
			if p == rp {
				return true
			}
		}
		return false
	}
	add := func(x ast.Expr) {
		switch l := x.(type) {
		case *ast.Ident:
			if obj, ok := u.g.P.Info.Uses[l].(*types.Var); ok && obj != nil {
				if !local(obj.Pos()) && !seen[obj] {
					seen[obj] = true
					vars = append(vars, obj)
				}
			}
		default:
			// field / index stores: find the root variable if it is a local struct value
			root := x
			for {
				switch r := root.(type) {
				case *ast.SelectorExpr:
					root = r.X
					continue
				case *ast.IndexExpr:
					root = r.X
					continue
				case *ast.ParenExpr:
					root = r.X
					continue
				case *ast.StarExpr:
					root = r.X
					continue
				}
				break
			}
			if id, ok := root.(*ast.Ident); ok {
				if obj, ok := u.g.P.Info.Uses[id].(*types.Var); ok && obj != nil {
					if _, isStruct := obj.Type().Underlying().(*types.Struct); isStruct && !seen[obj] && !local(obj.Pos()) {
						seen[obj] = true
						vars = append(vars, obj)
					}
				}
			}
			heapWrite = true
		}
	}
	ast.Inspect(n, func(x ast.Node) bool {
		switch s := x.(type) {
		case *ast.AssignStmt:
			for _, l := range s.Lhs {
				add(l)
			}
		case *ast.IncDecStmt:
			add(s.X)
		case *ast.CallExpr:
			heapWrite = true
		case *ast.RangeStmt:
			if s.Tok == token.ASSIGN {
				if s.Key != nil {
					add(s.Key)
				}
				if s.Value != nil {
					add(s.Value)
				}
			}
		}
		return true
	})
	return
}

// havocLoop havocs what the loop may modify.
func (u *Unit) havocLoop(e *Ev, n ast.Node) {
	vars, heapWrite := u.assignedIn(n)
	for _, v := range vars {
		if loc, ok := e.st.boxed[v]; ok {
			_ = loc
			heapWrite = true
			continue
		}
		old, ok := e.st.vars[v]
		if !ok {
			continue
		}
		nm := u.g.freshName(v.Name())
		s := e.sortOf(v.Type())
		e.st.declare(nm, s)
		old.S = nm
		old.Sort = s
		old.Loc = nil
		old.UConst = nil
		e.st.vars[v] = old
		// a havoced slice variable still holds a well-formed slice value
		e.wfSlice(old)
	}
	if heapWrite {
		u.loopKeepSets = nil
		names, all := u.loopHeapWrites(e, n)
		keep := map[string]bool{}
		if !all && len(u.loopKeepSets) > 0 {
			// callees that may write everything except a fixed set of heaps: havoc all but the intersection
			all = true
			cnt := map[string]int{}
			for _, ks := range u.loopKeepSets {
				for _, k := range ks {
					cnt[k]++
				}
			}
			for k, c := range cnt {
				if c == len(u.loopKeepSets) {
					if _, written := names[k]; !written {
						keep[k] = true
					}
				}
			}
		}
		if !all {
			// make sure the named heaps exist on this path so that they can be havoced
			for h, srt := range names {
				if _, ok := e.st.heaps[h]; !ok && srt != "" {
					e.heap(h, srt)
				}
			}
		}
		for _, h := range sortedHeapNames(e.st.heaps) {
			t := e.st.heaps[h]
			if strings.HasPrefix(h, "G$") {
				continue
			}
			if _, ok := names[h]; !all && !ok {
				continue
			}
			if keep[h] {
				continue
			}
			nm := u.g.freshName(h)
			e.st.declare(nm, t.Sort)
			e.st.heaps[h] = Term{S: nm, Sort: t.Sort, T: t.T}
			u.noteWrite(h)
		}
		e.st.named["$heapsHavoced"] = Term{S: "true", Sort: sBool}
	}
	// ghost call counters are unknown at a loop head
	for k := range e.st.named {
		if strings.HasPrefix(k, "$calls:") {
			delete(e.st.named, k)
		}
	}
	e.st.named["$callsUnknown"] = Term{S: "true", Sort: sBool}
}

// loopHeapWrites over-approximates the heaps a loop may write: element heaps of indexed slices,
// object heaps of fields stored through pointers, map heaps, and the modifies clauses of callees.
func (u *Unit) loopHeapWrites(e *Ev, n ast.Node) (map[string]string, bool) {
	names := map[string]string{}
	all := false
	info := u.g.P.Info
	addStore := func(x ast.Expr) {
		for {
			switch l := x.(type) {
			case *ast.ParenExpr:
				x = l.X
				continue
			case *ast.IndexExpr:
				xt := info.Types[l.X].Type
				if xt == nil {
					all = true
					return
				}
				switch ut := xt.Underlying().(type) {
				case *types.Slice:
					es := e.sortOf(ut.Elem())
					names["A$"+sanitize(es)] = fmt.Sprintf("(Array Int (Array Int %s))", es)
				case *types.Map:
					base := e.mapHeapBase(ut)
					ks, vs := e.mapTypeSorts(ut)
					names[base+"$dom"] = fmt.Sprintf("(Array Int (Array %s Bool))", ks)
					names[base+"$val"] = fmt.Sprintf("(Array Int (Array %s %s))", ks, vs)
					names[base+"$card"] = "(Array Int Int)"
				default:
					x = l.X
					continue
				}
				return
			case *ast.SelectorExpr:
				xt := info.Types[l.X].Type
				if xt == nil {
					all = true
					return
				}
				if pt, ok := xt.Underlying().(*types.Pointer); ok {
					s := e.sortOf(pt.Elem())
					names["H$"+sanitize(s)] = fmt.Sprintf("(Array Int %s)", s)
					return
				}
				x = l.X
				continue
			case *ast.StarExpr:
				xt := info.Types[l.X].Type
				if pt, ok := xt.Underlying().(*types.Pointer); ok {
					s := e.sortOf(pt.Elem())
					names["H$"+sanitize(s)] = fmt.Sprintf("(Array Int %s)", s)
				} else {
					all = true
				}
				return
			case *ast.Ident:
				if v, ok := info.Uses[l].(*types.Var); ok {
					if loc, ok := e.st.boxed[v]; ok && loc.Kind == "heap" {
						names[loc.Name] = ""
					}
				}
				return
			}
			all = true
			return
		}
	}
	ast.Inspect(n, func(x ast.Node) bool {
		switch s := x.(type) {
		case *ast.FuncLit:
			return false
		case *ast.AssignStmt:
			for _, l := range s.Lhs {
				addStore(l)
			}
		case *ast.IncDecStmt:
			addStore(s.X)
		case *ast.CallExpr:
			if tv, ok := info.Types[s.Fun]; ok && tv.IsType() {
				return true
			}
			var fn *types.Func
			switch f := s.Fun.(type) {
			case *ast.Ident:
				switch o := info.Uses[f].(type) {
				case *types.Func:
					fn = o
				case *types.Builtin:
					switch o.Name() {
					case "append", "copy":
						if len(s.Args) > 0 {
							if st, ok := info.Types[s.Args[0]].Type.Underlying().(*types.Slice); ok {
								es := e.sortOf(st.Elem())
								names["A$"+sanitize(es)] = fmt.Sprintf("(Array Int (Array Int %s))", es)
							}
						}
					case "delete":
						if mt, ok := info.Types[s.Args[0]].Type.Underlying().(*types.Map); ok {
							base := e.mapHeapBase(mt)
							ks, _ := e.mapTypeSorts(mt)
							names[base+"$dom"] = fmt.Sprintf("(Array Int (Array %s Bool))", ks)
							names[base+"$card"] = "(Array Int Int)"
						}
					}
					return true
				default:
					all = true
					return true
				}
			case *ast.SelectorExpr:
				if sel := info.Selections[f]; sel != nil {
					if sel.Kind() == types.MethodVal {
						fn, _ = sel.Obj().(*types.Func)
						if fn != nil {
							if it, isIface := fn.Type().(*types.Signature).Recv().Type().Underlying().(*types.Interface); isIface {
								if fn.Pkg() != nil && fn.Pkg() != u.g.P.Pkg.Types && !u.g.hasContractedImplementer(it, fn.Name()) {
									// a dependency's interface with no implementer under contract here: modelled
									// (callInterface) as leaving this package's objects alone
									return true
								}
								all = true
								return true
							}
						}
					} else {
						all = true
						return true
					}
				} else if o, ok := info.Uses[f.Sel].(*types.Func); ok {
					fn = o
				}
			default:
				all = true
				return true
			}
			if fn == nil {
				all = true
				return true
			}
			if fn.Pkg() != u.g.P.Pkg.Types {
				if inf, ok := externals[extKey(fn)]; ok && len(inf.mutates) > 0 {
					all = true
				}
				return true
			}
			b := u.g.C.forFunc(funcKeyOf(fn))
			if b == nil {
				all = true
				return true
			}
			if hasFlag(b, "inline") || hasFlag(b, "pure") {
				return true
			}
			for _, c := range b.clauses("modifies") {
				for _, item := range splitTopSpaces(c.Text) {
					switch {
					case strings.HasPrefix(item, "allbut("):
						var ks []string
						for _, k := range strings.Split(item[7:len(item)-1], ",") {
							ks = append(ks, strings.TrimSpace(k))
						}
						u.loopKeepSets = append(u.loopKeepSets, ks)
					case item == "*":
						all = true
					case strings.HasPrefix(item, "elems(") || strings.HasPrefix(item, "fields("):
						fdecl := u.g.P.Funcs[funcKeyOf(fn)]
						var t types.Type
						if fdecl != nil && fdecl.Body != nil {
							inner := item[strings.Index(item, "(")+1 : len(item)-1]
							t = u.g.specTypeOf(inner, fdecl.Body.Lbrace+1)
						}
						if t == nil {
							all = true
							break
						}
						if st, ok := t.Underlying().(*types.Slice); ok && strings.HasPrefix(item, "elems(") {
							es := e.sortOf(st.Elem())
							names["A$"+sanitize(es)] = fmt.Sprintf("(Array Int (Array Int %s))", es)
						} else if pt, ok := t.Underlying().(*types.Pointer); ok && strings.HasPrefix(item, "fields(") {
							ss := e.sortOf(pt.Elem())
							names["H$"+sanitize(ss)] = fmt.Sprintf("(Array Int %s)", ss)
						} else {
							all = true
						}
					default:
						names[item] = ""
					}
				}
			}
		}
		return true
	})
	return names, all
}

func (u *Unit) checkInvariants(lb *Block, st *State, pos token.Pos, what string, loopEntry *State) {
	if lb == nil {
		return
	}
	for i, c := range lb.clauses("invariant") {
		e := u.specEv(st, pos)
		if lb.Case != "" && u.caseEntry != nil {
			e.old = u.caseEntry
		}
		t := e.evSpec(c.Text)
		name := c.Name
		if name == "" {
			name = fmt.Sprint(i)
		}
		o := u.addObl(u.loopOblName(lb, fmt.Sprintf("%s#%s", what, name)), u.loopProps(lb, c), st, t.S, c.Text, nil)
		if what == "preserve" {
			u.filterInvHyps(lb, name, o)
		}
	}
}

// filterInvHyps: `uses NAME: A B ...` in a loop block says that preserving invariant NAME needs,
// of the loop's named invariants, only NAME itself and A, B, ... as hypotheses. The others are
// dropped from that obligation (dropping hypotheses is always sound; it keeps quantifier-heavy
// invariants that are irrelevant to the clause out of the solver's way).
func (u *Unit) filterInvHyps(lb *Block, name string, o *Obligation) {
	var allowed map[string]bool
	for _, c := range lb.clauses("uses") {
		parts := strings.SplitN(c.Text, ":", 2)
		if len(parts) != 2 || strings.TrimSpace(parts[0]) != name {
			continue
		}
		allowed = map[string]bool{name: true}
		for _, a := range strings.Fields(parts[1]) {
			allowed[a] = true
		}
	}
	if allowed == nil {
		return
	}
	o.dropAxioms = u.axiomsNotUsed(lb, name)
	var hyps []string
	for _, h := range o.Hyps {
		if tag, ok := u.invTag[h]; ok {
			if k := strings.LastIndex(tag, "#"); k >= 0 && !allowed[tag[k+1:]] {
				continue
			}
		}
		hyps = append(hyps, h)
	}
	o.Hyps = hyps
}

func (u *Unit) assumeInvariants(lb *Block, st *State, pos token.Pos) {
	if lb == nil {
		return
	}
	for _, c := range append(lb.clauses("invariant"), lb.clauses("assume")...) {
		e := u.specEv(st, pos)
		if lb.Case != "" && u.caseEntry != nil {
			e.old = u.caseEntry
		}
		t := e.evSpec(c.Text)
		st.assume(t.S)
		if c.Name != "" {
			if u.invTag == nil {
				u.invTag = map[string]string{}
			}
			u.invTag[t.S] = lb.ID() + "#" + c.Name
		}
		if c.Kind == "assume" {
			u.g.Assumed["assumed at the head of "+lb.ID()+" (not proved): "+c.Text] = true
		}
	}
}

func (u *Unit) execFor(n *ast.ForStmt, st *State, f Flow) {
	if n.Init != nil {
		f2 := f
		f2.next = func(s2 *State) {
			n2 := *n
			n2.Init = nil
			u.execForLoop(&n2, n, s2, f)
		}
		u.exec(n.Init, st, f2)
		return
	}
	u.execForLoop(n, n, st, f)
}

func (u *Unit) execForLoop(n *ast.ForStmt, orig *ast.ForStmt, st *State, f Flow) {
	lb := u.loopBlock(orig)
	if lb == nil {
		u.g.errorf("%s: %s: loop without invariant block (%s/loopK)", u.name, u.g.P.pos(orig), u.contractID())
		return
	}
	pos := n.Body.Lbrace + 1
	u.checkInvariants(lb, st, pos, "init", nil)
	u.checkLoopFrameInit(lb, st)
	head := st.clone()
	he := u.newEv(head)
	u.havocLoop(he, n)
	u.assumeInvariants(lb, head, pos)
	u.assumeLoopFrame(head)
	var dec0 []Term
	for _, c := range lb.clauses("decreases") {
		de := u.specEv(head, pos)
		dec0 = append(dec0, de.nameTerm(de.evSpec(c.Text), "variant"))
	}
	cond := "true"
	if n.Cond != nil {
		cond = u.newEv(head).ev(n.Cond).S
	}
	// iteration
	body := u.fork(head, cond)
	endIter := func(s *State) {
		after := func(s2 *State) {
			u.checkInvariants(lb, s2, pos, "preserve", head)
			u.checkLoopFrame(lb, s2)
			for i, c := range lb.clauses("decreases") {
				de := u.specEv(s2, pos)
				d1 := de.evSpec(c.Text)
				a, b := de.unify(dec0[i], d1)
				u.addObl(u.loopOblName(lb, fmt.Sprintf("decreases#%d", i)), u.loopProps(lb, c), s2, smtAnd(app(">=", a.S, "0"), app("<", b.S, a.S)), c.Text, nil)
			}
		}
		if n.Post != nil {
			pf := Flow{next: after, ret: f.ret}
			u.exec(n.Post, s, pf)
		} else {
			after(s)
		}
	}
	bf := Flow{next: endIter, cont: endIter, brk: f.next, ret: f.ret}
	u.exec(n.Body, body, bf)
	// exit
	if n.Cond != nil {
		f.next(u.fork(head, smtNot(cond)))
	}
}

func (u *Unit) execRange(n *ast.RangeStmt, st *State, f Flow) {
	lb := u.loopBlock(n)
	if lb == nil {
		u.g.errorf("%s: %s: range loop without invariant block (%s/loopK)", u.name, u.g.P.pos(n), u.contractID())
		return
	}
	e := u.newEv(st)
	x := e.nameTerm(e.ev(n.X), "rng")
	pos := n.Body.Lbrace + 1
	xt := u.g.P.Info.Types[n.X].Type
	switch ut := xt.Underlying().(type) {
	case *types.Slice:
		// hidden index variable, visible in specs as the key variable or `rangeidx`
		idxName := "rangeidx"
		st.named[idxName] = Term{S: "0", Sort: sInt, T: types.Typ[types.Int], Signed: true}
		setKV := func(s *State, idx string) {
			ee := u.newEv(s)
			if id, ok := n.Key.(*ast.Ident); ok && id.Name != "_" {
				kv := ee.fromInt(idx)
				if n.Tok == token.DEFINE {
					s.vars[u.g.P.Info.Defs[id]] = kv
				} else {
					ee.store(ee.lvalue(id), kv, n)
				}
			}
			if n.Value != nil {
				if id, ok := n.Value.(*ast.Ident); ok && id.Name != "_" {
					es := ee.sortOf(ut.Elem())
					h := ee.elemHeap(es)
					v := Term{S: app("select", app("select", h, app("sarr", x.S)), app("+", app("soff", x.S), idx)), Sort: es, T: ut.Elem(), Signed: isSigned(ut.Elem())}
					v = ee.nameTerm(v, id.Name)
					if n.Tok == token.DEFINE {
						s.vars[u.g.P.Info.Defs[id]] = v
					} else {
						ee.store(ee.lvalue(id), v, n)
					}
				}
			}
		}
		u.checkInvariants(lb, st, pos, "init", nil)
		u.checkLoopFrameInit(lb, st)
		head := st.clone()
		he := u.newEv(head)
		u.havocLoop(he, n)
		idx := u.g.freshName("rangeidx")
		head.declare(idx, sInt)
		head.named[idxName] = Term{S: idx, Sort: sInt, T: types.Typ[types.Int], Signed: true}
		head.assume(app("<=", "0", idx))
		head.assume(app("<=", idx, app("slen", x.S)))
		u.assumeInvariants(lb, head, pos)
		u.assumeLoopFrame(head)
		body := u.fork(head, app("<", idx, app("slen", x.S)))
		setKV(body, idx)
		// `iterassume expr`: a fact about this iteration's key/value taken for granted (reported)
		for _, c := range lb.clauses("iterassume") {
			body.assume(u.specEv(body, pos).evSpec(c.Text).S)
			u.g.Assumed["assumed of every element visited by "+lb.ID()+" (not proved): "+c.Text] = true
		}
		endIter := func(s *State) {
			s.named[idxName] = Term{S: app("+", idx, "1"), Sort: sInt, T: types.Typ[types.Int], Signed: true}
			u.checkInvariants(lb, s, pos, "preserve", head)
			u.checkLoopFrame(lb, s)
		}
		bf := Flow{next: endIter, cont: endIter, brk: f.next, ret: f.ret}
		u.exec(n.Body, body, bf)
		exit := u.fork(head, smtEq(idx, app("slen", x.S)))
		f.next(exit)
	case *types.Map:
		u.execRangeMap(n, ut, x, lb, st, f)
	case *types.Basic:
		if x.Sort != sStr {
			u.g.errorf("%s: %s: range over %v unsupported", u.name, u.g.P.pos(n), xt)
			return
		}
		// range over a string: the hidden byte offset `rangeidx` starts at 0 and advances by the
		// width Go's decoder assigns to the rune starting there (uninterpreted str_runewidth with
		// 1 <= width and offset+width <= len); the value is str_runeat(s, offset).
		g := u.g
		g.Pre.add("(declare-fun str_runeat (Str Int) (_ BitVec 32))")
		g.Pre.add("(declare-fun str_runewidth (Str Int) Int)")
		g.Pre.add("(assert (forall ((s Str) (i Int)) (! (=> (and (<= 0 i) (< i (str_len s))) (and (<= 1 (str_runewidth s i)) (<= (+ i (str_runewidth s i)) (str_len s)))) :pattern ((str_runewidth s i)))))")
		idxName := "rangeidx"
		st.named[idxName] = Term{S: "0", Sort: sInt, T: types.Typ[types.Int], Signed: true}
		u.checkInvariants(lb, st, pos, "init", nil)
		u.checkLoopFrameInit(lb, st)
		head := st.clone()
		he := u.newEv(head)
		u.havocLoop(he, n)
		idx := g.freshName("rangeidx")
		head.declare(idx, sInt)
		head.named[idxName] = Term{S: idx, Sort: sInt, T: types.Typ[types.Int], Signed: true}
		head.assume(app("<=", "0", idx))
		head.assume(app("<=", idx, app("str_len", x.S)))
		u.assumeInvariants(lb, head, pos)
		u.assumeLoopFrame(head)
		body := u.fork(head, app("<", idx, app("str_len", x.S)))
		ee := u.newEv(body)
		if id, ok := n.Key.(*ast.Ident); ok && id.Name != "_" {
			kv := ee.fromInt(idx)
			if n.Tok == token.DEFINE {
				body.vars[g.P.Info.Defs[id]] = kv
			} else {
				ee.store(ee.lvalue(id), kv, n)
			}
		}
		if n.Value != nil {
			if id, ok := n.Value.(*ast.Ident); ok && id.Name != "_" {
				rt := types.Typ[types.Rune]
				v := Term{S: app("str_runeat", x.S, idx), Sort: "(_ BitVec 32)", T: rt, Signed: true}
				if n.Tok == token.DEFINE {
					body.vars[g.P.Info.Defs[id]] = v
				} else {
					ee.store(ee.lvalue(id), v, n)
				}
			}
		}
		endIter := func(s *State) {
			s.named[idxName] = Term{S: app("+", idx, app("str_runewidth", x.S, idx)), Sort: sInt, T: types.Typ[types.Int], Signed: true}
			u.checkInvariants(lb, s, pos, "preserve", head)
			u.checkLoopFrame(lb, s)
		}
		bf := Flow{next: endIter, cont: endIter, brk: f.next, ret: f.ret}
		u.exec(n.Body, body, bf)
		f.next(u.fork(head, smtEq(idx, app("str_len", x.S))))
	default:
		u.g.errorf("%s: %s: range over %v unsupported", u.name, u.g.P.pos(n), xt)
	}
}

// ---------- obligations ----------

func (u *Unit) contractID() string {
	if u.block != nil {
		return u.block.ID()
	}
	return u.name
}

func (u *Unit) addObl(name string, props []string, st *State, goal string, text string, extraHyps []string) *Obligation {
	o := &Obligation{Name: name, Props: props, Goal: goal, Text: text, Unit: u.name}
	o.Hyps = append(o.Hyps, st.pc...)
	o.Hyps = append(o.Hyps, extraHyps...)
	o.unit = u
	u.g.Obls = append(u.g.Obls, o)
	return o
}

// addMerged adds one obligation that is the conjunction over several paths.
func (u *Unit) addMerged(name string, props []string, parts []string, text string) *Obligation {
	o := &Obligation{Name: name, Props: props, Goal: smtAnd(parts...), Text: text, Unit: u.name}
	var lparts []string
	light := false
	for _, p := range parts {
		if l, ok := lightImp[p]; ok {
			lparts = append(lparts, l)
			light = true
		} else {
			lparts = append(lparts, p)
		}
	}
	if light {
		o.LightGoal = smtAnd(lparts...)
	}
	o.unit = u
	u.g.Obls = append(u.g.Obls, o)
	return o
}

// lightImp maps a path implication to its weakened form without heavy hypotheses.
var lightImp = map[string]string{}

func isHeavyHyp(h string) bool {
	return strings.Contains(h, "(forall") && (strings.Contains(h, "toF64") || strings.Contains(h, "fromF_"))
}

func pathImp(pc []string, goal string) string {
	full := smtImp(smtAnd(pc...), goal)
	var lpc []string
	dropped := false
	for _, h := range pc {
		if isHeavyHyp(h) {
			dropped = true
			continue
		}
		lpc = append(lpc, h)
	}
	if dropped {
		lightImp[full] = smtImp(smtAnd(lpc...), goal)
	}
	return full
}

func sortedVarNames(m map[string]Term) []string {
	var ks []string
	for k := range m {
		ks = append(ks, k)
	}
	sort.Strings(ks)
	return ks
}

// refComponents lists the reference-valued components of a term of Go type t.
func (g *Gen) refComponents(term string, t types.Type, bv bool, depth int) []string {
	if depth > 3 || t == nil {
		return nil
	}
	switch g.namedName(t) {
	case "Type", "pos", "stringT":
		return nil
	}
	switch u := t.Underlying().(type) {
	case *types.Pointer, *types.Map, *types.Signature:
		return []string{term}
	case *types.Slice:
		return []string{app("sarr", term)}
	case *types.Interface:
		return []string{app("oref", term)}
	case *types.Struct:
		var out []string
		sname := g.structName(t, bv)
		for i := 0; i < u.NumFields(); i++ {
			f := u.Field(i)
			out = append(out, g.refComponents(app(g.fieldAcc(sname, f.Name()), term), f.Type(), bv, depth+1)...)
		}
		return out
	}
	return nil
}

// nonFreshAxioms: references stored in an initial heap are not freshly allocated in this unit.
func (u *Unit) nonFreshAxioms(heap, sort string) {
	g := u.g
	g.Pre.addFresh()
	inner := ""
	two := false
	if strings.HasPrefix(sort, "(Array Int (Array Int ") {
		inner = strings.TrimSuffix(strings.TrimPrefix(sort, "(Array Int (Array Int "), "))")
		two = true
	} else if strings.HasPrefix(sort, "(Array Int ") {
		inner = strings.TrimSuffix(strings.TrimPrefix(sort, "(Array Int "), ")")
	} else {
		return
	}
	gt, ok := g.sortGoType[inner]
	if !ok {
		return
	}
	var sel string
	var binder string
	if two {
		sel = fmt.Sprintf("(select (select %s a) i)", heap)
		binder = "(a Int) (i Int)"
	} else {
		sel = fmt.Sprintf("(select %s a)", heap)
		binder = "(a Int)"
	}
	for _, c := range g.refComponents(sel, gt, u.bv, 0) {
		u.defs = append(u.defs, fmt.Sprintf("(forall (%s) (! (not (fresh$ %s)) :pattern (%s)))", binder, c, c))
	}
}

// specTypeOf infers the Go type of a simple spec expression (identifiers, selectors, indexing)
// at a source position, without evaluating it.
func (g *Gen) specTypeOf(expr string, pos token.Pos) types.Type {
	x, err := parser.ParseExpr(expr)
	if err != nil {
		return nil
	}
	var rec func(x ast.Expr) types.Type
	rec = func(x ast.Expr) types.Type {
		switch n := x.(type) {
		case *ast.ParenExpr:
			return rec(n.X)
		case *ast.Ident:
			sc := g.P.Pkg.Types.Scope().Innermost(pos)
			if sc == nil {
				return nil
			}
			_, obj := sc.LookupParent(n.Name, pos)
			if v, ok := obj.(*types.Var); ok {
				return v.Type()
			}
		case *ast.SelectorExpr:
			t := rec(n.X)
			if t == nil {
				return nil
			}
			obj, _, _ := types.LookupFieldOrMethod(t, true, g.P.Pkg.Types, n.Sel.Name)
			if v, ok := obj.(*types.Var); ok {
				return v.Type()
			}
		case *ast.IndexExpr:
			t := rec(n.X)
			if t == nil {
				return nil
			}
			switch u := t.Underlying().(type) {
			case *types.Slice:
				return u.Elem()
			case *types.Map:
				return u.Elem()
			}
		case *ast.StarExpr:
			t := rec(n.X)
			if t == nil {
				return nil
			}
			if p, ok := t.Underlying().(*types.Pointer); ok {
				return p.Elem()
			}
		case *ast.CallExpr:
			// as(x, T): the asserted type T (T, *T)
			if id, ok := n.Fun.(*ast.Ident); ok && id.Name == "as" && len(n.Args) == 2 {
				tx := n.Args[1]
				ptr := false
				if st, ok := tx.(*ast.StarExpr); ok {
					ptr = true
					tx = st.X
				}
				if tid, ok := tx.(*ast.Ident); ok {
					if tn, ok := g.P.Pkg.Types.Scope().Lookup(tid.Name).(*types.TypeName); ok {
						if ptr {
							return types.NewPointer(tn.Type())
						}
						return tn.Type()
					}
				}
			}
		}
		return nil
	}
	return rec(x)
}

// Implicit loop invariant: the unit's frame (objects outside its modifies clause unchanged since
// entry) holds at every loop head; it is assumed after the havoc and re-checked after the body.
func (u *Unit) assumeLoopFrame(st *State) {
	if !u.hasFrame() || u.entry == nil {
		return
	}
	for _, f := range u.frameFormula(u.block, st, u.entry, u.bodyPos) {
		st.assume(f)
	}
}

// checkLoopFrameInit: the frame the loop head is about to assume (relative to the unit's entry)
// must already hold when the loop is entered; otherwise a frame violation committed before a loop
// that havocs the same heap would be forgotten at the head (DESIGN 11.6 E13).
func (u *Unit) checkLoopFrameInit(lb *Block, st *State) {
	if !u.hasFrame() || u.entry == nil {
		return
	}
	fs := u.frameFormula(u.block, st, u.entry, u.bodyPos)
	if len(fs) == 0 {
		return
	}
	u.addObl(u.loopOblName(lb, "init#frame"), u.props, st, smtAnd(fs...), "implicit invariant holds on loop entry: objects outside the modifies clause unchanged so far", nil)
}

func (u *Unit) checkLoopFrame(lb *Block, st *State) {
	if !u.hasFrame() || u.entry == nil {
		return
	}
	fs := u.frameFormula(u.block, st, u.entry, u.bodyPos)
	if len(fs) == 0 {
		return
	}
	u.addObl(u.loopOblName(lb, "preserve#frame"), u.props, st, smtAnd(fs...), "implicit invariant: objects outside the modifies clause unchanged", nil)
}

// notInHeaps states that no reference stored in any heap of the current state satisfies pred
// (pred is an SMT predicate name, or "= r" style via eqTo). Used at allocation time: a newly
// allocated object cannot already be referenced from the heap.
func (e *Ev) notInHeaps(pred func(c string) string) {
	g := e.g()
	// nor is it referenced from a local variable of the running unit
	var vs []types.Object
	for v := range e.st.vars {
		vs = append(vs, v)
	}
	sort.Slice(vs, func(i, j int) bool { return vs[i].Pos() < vs[j].Pos() })
	for _, v := range vs {
		t := e.st.vars[v]
		if t.T == nil || t.S == "" || t.UConst != nil || t.Loc != nil || t.Clo != nil {
			continue
		}
		for _, c := range g.refComponents(t.S, t.T, e.bv, 0) {
			e.define(pred(c))
		}
		// elements of a local slice of references
		if f := e.elemRefFact(t.S, t.T, "", pred); f != "" {
			e.u.sepDefs = append(e.u.sepDefs, f)
		}
	}
	for _, h := range sortedHeapNames(e.st.heaps) {
		t := e.st.heaps[h]
		if strings.HasPrefix(h, "G$") || strings.HasPrefix(h, "M$") {
			continue
		}
		inner := ""
		two := false
		if strings.HasPrefix(t.Sort, "(Array Int (Array Int ") {
			inner = strings.TrimSuffix(strings.TrimPrefix(t.Sort, "(Array Int (Array Int "), "))")
			two = true
		} else if strings.HasPrefix(t.Sort, "(Array Int ") {
			inner = strings.TrimSuffix(strings.TrimPrefix(t.Sort, "(Array Int "), ")")
		} else {
			continue
		}
		gt, ok := g.sortGoType[inner]
		if !ok {
			continue
		}
		if init, ok := e.u.inits[h]; ok && init.S == t.S {
			continue // initial heap: covered by the non-freshness axioms
		}
		sel := fmt.Sprintf("(select %s a)", t.S)
		binder := "(a Int)"
		if two {
			sel = fmt.Sprintf("(select (select %s a) i)", t.S)
			binder = "(a Int) (i Int)"
		}
		for _, c := range g.refComponents(sel, gt, e.bv, 0) {
			e.u.sepDefs = append(e.u.sepDefs, fmt.Sprintf("(forall (%s) (! %s :pattern (%s)))", binder, pred(c), c))
		}
		// slices of references held in fields of heap objects: their elements
		if st, ok := gt.Underlying().(*types.Struct); ok && !two {
			sname := g.structName(gt, e.bv)
			for i := 0; i < st.NumFields(); i++ {
				f := st.Field(i)
				if fact := e.elemRefFact(app(g.fieldAcc(sname, f.Name()), sel), f.Type(), "(a Int)", pred); fact != "" {
					e.u.sepDefs = append(e.u.sepDefs, fact)
				}
			}
		}
	}
}

// elemRefFact: for a slice value of element type pointer / interface, the fact that no element
// satisfies pred (quantified over the element position, and over `outer` binders if any).
func (e *Ev) elemRefFact(term string, t types.Type, outer string, pred func(c string) string) string {
	if t == nil {
		return ""
	}
	st, ok := t.Underlying().(*types.Slice)
	if !ok {
		return ""
	}
	var comp func(el string) string
	switch st.Elem().Underlying().(type) {
	case *types.Pointer:
		comp = func(el string) string { return el }
	case *types.Interface:
		comp = func(el string) string { return app("oref", el) }
	default:
		return ""
	}
	es := e.sortOf(st.Elem())
	name := "A$" + sanitize(es)
	h, ok := e.st.heaps[name]
	if !ok {
		return ""
	}
	el := fmt.Sprintf("(select (select %s (sarr %s)) i$)", h.S, term)
	binders := "(i$ Int)"
	if outer != "" {
		binders = outer + " " + binders
	}
	return fmt.Sprintf("(forall (%s) (! %s :pattern (%s)))", binders, pred(comp(el)), el)
}

// inlineStmtCall: a call in statement position (f(...) or x, y := f(...)) to a function of the
// package that has NO contract is executed in place: its body is run with the arguments bound and
// the caller continues from each of its return points. This keeps a contract applicable when a
// few lines are extracted into a helper (or a helper without contract is called). Loops inside
// the helper would need invariants of their own and are an error of the unit.
func (u *Unit) inlineStmtCall(call *ast.CallExpr, st *State, cont func(*State, []Term)) bool {
	g := u.g
	var fn *types.Func
	var recvExpr ast.Expr
	switch fx := call.Fun.(type) {
	case *ast.Ident:
		fn, _ = g.P.Info.Uses[fx].(*types.Func)
	case *ast.SelectorExpr:
		if sel := g.P.Info.Selections[fx]; sel != nil && sel.Kind() == types.MethodVal {
			fn, _ = sel.Obj().(*types.Func)
			recvExpr = fx.X
		}
	}
	if fn == nil || fn.Pkg() != g.P.Pkg.Types {
		return false
	}
	key := funcKeyOf(fn)
	if g.C.forFunc(key) != nil {
		return false
	}
	fd := g.P.Funcs[key]
	if fd == nil || fd.Body == nil || u.inlineDepth > 4 {
		return false
	}
	sig := fn.Type().(*types.Signature)
	if sig.Variadic() || call.Ellipsis.IsValid() {
		return false
	}
	if _, isIface := func() (types.Type, bool) {
		if sig.Recv() == nil {
			return nil, false
		}
		t := sig.Recv().Type()
		_, ok := t.Underlying().(*types.Interface)
		return t, ok
	}(); isIface {
		return false
	}
	e := u.newEv(st)
	if recvExpr != nil && sig.Recv() != nil {
		rv := e.ev(recvExpr)
		_, wantPtr := sig.Recv().Type().Underlying().(*types.Pointer)
		_, havePtr := rv.T.Underlying().(*types.Pointer)
		if wantPtr != havePtr {
			return false // address-of / dereference adjustment: leave it to the ordinary call path
		}
		st.vars[sig.Recv()] = rv
	}
	if len(call.Args) != sig.Params().Len() {
		return false
	}
	for i, a := range call.Args {
		st.vars[sig.Params().At(i)] = e.toType(e.ev(a), sig.Params().At(i).Type(), call)
	}
	g.Notes = append(g.Notes, fmt.Sprintf("%s: call of %s (no contract) executed in place", u.name, key))
	saveSig, saveRes := u.sig, u.resVars
	u.sig = sig
	u.resVars = nil
	for i := 0; i < sig.Results().Len(); i++ {
		rv := sig.Results().At(i)
		if rv.Name() != "" && rv.Name() != "_" {
			st.vars[rv] = g.zero(rv.Type(), u.bv)
			u.resVars = append(u.resVars, rv)
		}
	}
	calleeRes := u.resVars
	u.inlineDepth++
	restore := func() { u.sig, u.resVars = saveSig, saveRes; u.inlineDepth-- }
	reenter := func() { u.sig, u.resVars = sig, calleeRes; u.inlineDepth++ }
	flow := Flow{}
	flow.ret = func(s *State, r []Term) {
		restore()
		cont(s, r)
		reenter()
	}
	flow.next = func(s *State) {
		var r []Term
		for _, rv := range calleeRes {
			r = append(r, s.vars[rv])
		}
		flow.ret(s, r)
	}
	u.execList(fd.Body.List, st, flow)
	restore()
	return true
}

package main

import (
	"encoding/json"
	"flag"
	"fmt"
	"os"
	"path/filepath"
	"runtime"
	"sort"
	"strconv"
	"strings"
	"time"
)

func verifDir() string {
	if d := os.Getenv("VERIF_DIR"); d != "" {
		return d
	}
	exe, err := os.Executable()
	if err == nil {
		d := filepath.Dir(filepath.Dir(exe))
		if _, err := os.Stat(filepath.Join(d, "MANIFEST.json")); err == nil {
			return d
		}
	}
	return "/verif"
}

func main() {
	if len(os.Args) < 2 {
		fmt.Fprintln(os.Stderr, "usage: govc check <id> [--tier quick|thorough] | replay <path> | list | selftest")
		os.Exit(2)
	}
	switch os.Args[1] {
	case "check":
		fs := flag.NewFlagSet("check", flag.ExitOnError)
		tier := fs.String("tier", "", "quick|thorough")
		ignoreKnown := fs.Bool("ignore-known", false, "report known findings as violations (selftest canaries)")
		verbose := fs.Bool("v", false, "verbose")
		if len(os.Args) < 3 {
			os.Exit(2)
		}
		id := os.Args[2]
		fs.Parse(os.Args[3:])
		if *tier == "" {
			*tier = os.Getenv("VERIF_TIER")
		}
		if *tier == "" {
			*tier = "quick"
		}
		os.Exit(runCheck(id, *tier, *ignoreKnown, *verbose))
	case "replay":
		os.Exit(runReplay(os.Args[2]))
	case "list":
		os.Exit(runList())
	case "selftest":
		os.Exit(runSelftest(os.Args[2:]))
	case "locals":
		os.Exit(runLocals())
	default:
		fmt.Fprintln(os.Stderr, "unknown command", os.Args[1])
		os.Exit(2)
	}
}

type knownFinding struct {
	Kind, Prop, Obligation, Rest string
}

func loadKnown(path string) []knownFinding {
	b, err := os.ReadFile(path)
	if err != nil {
		return nil
	}
	var out []knownFinding
	for _, l := range strings.Split(string(b), "\n") {
		l = strings.TrimSpace(l)
		if l == "" || strings.HasPrefix(l, "#") {
			continue
		}
		var k knownFinding
		if strings.HasPrefix(l, "known:") {
			k.Kind = "known"
			l = strings.TrimSpace(l[6:])
		} else if strings.HasPrefix(l, "fixed:") {
			k.Kind = "fixed"
			l = strings.TrimSpace(l[6:])
		} else {
			continue
		}
		for _, f := range strings.Fields(l) {
			if strings.HasPrefix(f, "property=") {
				k.Prop = f[9:]
			} else if strings.HasPrefix(f, "obligation=") {
				k.Obligation = f[11:]
			}
		}
		k.Rest = l
		out = append(out, k)
	}
	return out
}

func seedFromEnv() int {
	s, _ := strconv.Atoi(os.Getenv("VERIF_SEED"))
	return s
}

func runCheck(id, tier string, ignoreKnown, verbose bool) int {
	t0 := time.Now()
	vd := verifDir()
	prog, err := loadProg(repoDir())
	if err != nil {
		fmt.Fprintln(os.Stderr, "load error:", err)
		return 2
	}
	cs, err := parseContracts(filepath.Join(repoDir(), "contracts_verif.go"))
	if err != nil {
		fmt.Fprintln(os.Stderr, "contract error:", err)
		return 2
	}
	g := newGen(prog, cs)
	g.generate(id)
	var obls []*Obligation
	for _, o := range g.Obls {
		if hasProp(o.Props, id) {
			obls = append(obls, o)
		}
	}
	// Errors while generating obligations (a contract that no longer fits the code: missing loop
	// invariant, unknown identifier in a clause, construct outside the subset). On the unchanged
	// tree there are none. On a changed tree they mean the unit's contract can no longer be
	// discharged: reported as a failed synthetic obligation <unit>/contract-applies.
	genErrs := map[string][]string{}
	var genUnits []string
	for _, e := range g.Errors {
		unit := e
		if i := strings.Index(e, ": "); i > 0 {
			unit = e[:i]
		}
		if _, ok := genErrs[unit]; !ok {
			genUnits = append(genUnits, unit)
		}
		genErrs[unit] = append(genErrs[unit], e)
	}
	sort.Strings(genUnits)
	if len(genUnits) > 0 {
		// obligations of a unit whose generation failed are meaningless (error terms inside):
		// the unit is reported once, as <unit>/contract-applies
		var kept []*Obligation
		for _, o := range obls {
			if _, bad := genErrs[o.Unit]; !bad {
				kept = append(kept, o)
			}
		}
		obls = kept
	}
	if len(obls) == 0 && len(genUnits) == 0 {
		fmt.Fprintf(os.Stderr, "no obligations generated for %s (vacuity guard)\n", id)
		return 2
	}
	timeout := 10
	all := false
	if tier == "thorough" {
		timeout = 60
		all = true
	}
	work := filepath.Join(vd, "work", id)
	os.RemoveAll(work)
	os.RemoveAll(filepath.Join(vd, "replays", id))
	jobs := runtime.NumCPU()
	if all {
		jobs = jobs / 2
	}
	if jobs < 1 {
		jobs = 1
	}
	for _, k := range loadKnown(filepath.Join(vd, "known_findings.txt")) {
		if k.Kind == "known" && k.Prop == id && !ignoreKnown {
			for _, o := range obls {
				if o.Name == k.Obligation {
					o.KnownFinding = true
				}
			}
		}
	}
	g.discharge(obls, work, timeout, all, jobs)
	if tier == "thorough" {
		g.thoroughExtras(id, &obls, work)
	}

	known := loadKnown(filepath.Join(vd, "known_findings.txt"))
	isKnown := func(name string) *knownFinding {
		if ignoreKnown {
			return nil
		}
		for i, k := range known {
			if k.Kind == "known" && k.Prop == id && k.Obligation == name {
				return &known[i]
			}
		}
		return nil
	}
	floor := loadFloor(filepath.Join(vd, "contracts", "floor.json"))
	discharged, covers, coverFail := 0, 0, 0
	var solverMs int64
	var violations []string
	var knownSeen []string
	var perObl []map[string]any
	var samples []any
	nProof := 0
	engineErrors := 0
	for _, o := range obls {
		solverMs += o.Ms
		rec := map[string]any{"name": o.Name, "result": o.Result, "backend": o.Backend, "ms": o.Ms, "clause": o.Text}
		if o.Cover {
			covers++
			rec["kind"] = "cover"
			if o.Result == "unsat" {
				coverFail++
				fmt.Printf("VACUOUS: %s: hypotheses are contradictory (%s)\n", o.Name, o.Backend)
			}
			perObl = append(perObl, rec)
			continue
		}
		nProof++
		perObl = append(perObl, rec)
		if len(samples) < 3 && o.Result == "unsat" {
			samples = append(samples, map[string]any{"obligation": o.Name, "clause": o.Text, "goal_smt": truncate(o.Goal, 600), "backend": o.Backend})
		}
		if o.Result == "unsat" {
			discharged++
			continue
		}
		if o.Result == "error" {
			fmt.Printf("ENGINE-ERROR: %s: solver rejected the query (%s): %s\n", o.Name, o.Backend, truncate(o.Output, 300))
			engineErrors++
			continue
		}
		if k := isKnown(o.Name); k != nil {
			fmt.Printf("KNOWN-FINDING: %s\n", k.Rest)
			knownSeen = append(knownSeen, o.Name)
			continue
		}
		path := g.writeReplay(vd, id, o)
		suffix := ""
		if !o.ReplayConfirmed {
			suffix = " no-failing-input-found"
		}
		violations = append(violations, fmt.Sprintf("VIOLATION property=%s replay=%s obligation=%s%s", id, path, o.Name, suffix))
	}
	// stale known findings: listed but the obligation is now discharged or gone
	for _, k := range known {
		if k.Kind == "known" && k.Prop == id && !ignoreKnown {
			found := false
			for _, n := range knownSeen {
				if n == k.Obligation {
					found = true
				}
			}
			if !found {
				fmt.Printf("NOTE: known finding no longer reproduces (stale): %s\n", k.Rest)
			}
		}
	}
	for _, unit := range genUnits {
		name := unit + "/contract-applies"
		if k := isKnown(name); k != nil {
			fmt.Printf("KNOWN-FINDING: %s\n", k.Rest)
			continue
		}
		dir := filepath.Join(vd, "replays", id)
		os.MkdirAll(dir, 0o755)
		path := filepath.Join(dir, sanitize(name)+".replay")
		os.WriteFile(path, []byte(fmt.Sprintf("property: %s\nobligation: %s\nThe contract of this unit can no longer be applied to the code (obligations could not be generated):\n%s\nreplay-status: no-failing-input-found\n", id, name, strings.Join(dedup(genErrs[unit]), "\n"))), 0o644)
		violations = append(violations, fmt.Sprintf("VIOLATION property=%s replay=%s obligation=%s no-failing-input-found", id, path, name))
	}
	sort.Strings(violations)
	for _, v := range violations {
		fmt.Println(v)
	}
	if verbose {
		for _, o := range obls {
			fmt.Printf("  %-8s %-7s %5dms  %s\n", o.Result, o.Backend, o.Ms, o.Name)
		}
	}
	exit := 0
	if len(violations) > 0 {
		exit = 1
	}
	if coverFail > 0 || engineErrors > 0 {
		exit = 2
	}
	if fl, ok := floor[id]; ok && nProof < fl && len(violations) == 0 {
		fmt.Printf("ERROR: %d obligations generated for %s, floor is %d (contracts lost?)\n", nProof, id, fl)
		exit = 2
	}
	// evidence
	var funcs []string
	for f := range g.Funcs {
		funcs = append(funcs, f)
	}
	sort.Strings(funcs)
	assumptions := g.assumptionList(id)
	if len(samples) == 0 && len(perObl) > 0 {
		samples = append(samples, perObl[0])
	}
	ev := map[string]any{
		"property_id": id,
		"tier":        tier,
		"seed":        seedFromEnv(),
		"level":       "proof",
		"coverage": map[string]any{
			"obligations":              nProof - len(knownSeen),
			"discharged":               discharged,
			"known_findings_seen":      nonNil(knownSeen),
			"known_findings_note":      "obligations refuted by a recorded genuine defect (known_findings.txt) are listed here and are not counted under obligations/discharged",
			"undischarged":             nProof - len(knownSeen) - discharged,
			"checker_cmd":              fmt.Sprintf("bin/govc check %s --tier %s", id, tier),
			"trusted_base":             g.trustedBase(),
			"functions_under_contract": funcs,
			"covers_sat":               covers - coverFail,
			"covers_total":             covers,
			"solver_ms_total":          solverMs,
			"per_obligation":           perObl,
			"samples":                  samples,
			"bounded":                  nonNil(g.Bounded),
			"notes":                    nonNil(dedup(g.Notes)),
			"backends":                 "race of z3 5.1.0 (z3-new), z3 4.8.12, cvc5 1.0.3" + ifs(tier == "thorough", "; all three run, no disagreement tolerated", "; first definite answer"),
		},
		"assumptions": nonNil(assumptions),
		"wall_s":      time.Since(t0).Seconds(),
		"violations":  len(violations),
	}
	if os.Getenv("VERIF_NOEVIDENCE") == "" {
		// (selftest runs on scratch copies must not overwrite the evidence of the real tree)
		os.MkdirAll(filepath.Join(vd, "evidence"), 0o755)
		b, _ := json.MarshalIndent(ev, "", " ")
		os.WriteFile(filepath.Join(vd, "evidence", id+".json"), b, 0o644)
	}
	fmt.Printf("%s: %d obligations, %d discharged, %d known findings, %d violations, %d covers (%d vacuous), %.1fs\n", id, nProof, discharged, len(knownSeen), len(violations), covers, coverFail, time.Since(t0).Seconds())
	return exit
}

func truncate(s string, n int) string {
	if len(s) <= n {
		return s
	}
	return s[:n] + "…"
}

func dedup(xs []string) []string {
	seen := map[string]bool{}
	var out []string
	for _, x := range xs {
		if !seen[x] {
			seen[x] = true
			out = append(out, x)
		}
	}
	return out
}

func loadFloor(path string) map[string]int {
	m := map[string]int{}
	b, err := os.ReadFile(path)
	if err == nil {
		json.Unmarshal(b, &m)
	}
	return m
}

func runList() int {
	prog, err := loadProg(repoDir())
	if err != nil {
		fmt.Fprintln(os.Stderr, err)
		return 2
	}
	cs, err := parseContracts(filepath.Join(repoDir(), "contracts_verif.go"))
	if err != nil {
		fmt.Fprintln(os.Stderr, err)
		return 2
	}
	_ = prog
	for _, b := range cs.Blocks {
		fmt.Printf("%-10s %-50s props=%v clauses=%d\n", b.Kind, b.ID(), b.Props, len(b.Clauses))
	}
	return 0
}

func nonNil(xs []string) []string {
	if xs == nil {
		return []string{}
	}
	return xs
}

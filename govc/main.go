package main

import (
	"fmt"
	"golang.org/x/tools/go/packages"
)

func main() {
	cfg := &packages.Config{Mode: packages.NeedName | packages.NeedFiles | packages.NeedSyntax | packages.NeedTypes | packages.NeedTypesInfo | packages.NeedImports | packages.NeedDeps, Dir: "/repo", BuildFlags: []string{"-tags=verif"}}
	pkgs, err := packages.Load(cfg, ".")
	fmt.Println(len(pkgs), err)
	for _, p := range pkgs {
		fmt.Println(p.PkgPath, len(p.Syntax), p.Errors)
	}
}

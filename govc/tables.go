package main

import (
	"fmt"
	"go/ast"
	"go/constant"
	"go/token"
	"sort"
	"strconv"
	"strings"
)

// ---------------------------------------------------------------------------------------------
// C05: the symbol table of the Pratt parser, extracted from the composite literal in init().
// ---------------------------------------------------------------------------------------------

type symEntry struct {
	Lbp      int
	Led, Nud string
}

func (g *Gen) symbolTable() map[string]symEntry {
	if g.symtab != nil {
		return g.symtab
	}
	tab := map[string]symEntry{}
	fd := g.P.Funcs["init"]
	var lit *ast.CompositeLit
	for _, f := range g.P.Pkg.Syntax {
		for _, d := range f.Decls {
			if fn, ok := d.(*ast.FuncDecl); ok && fn.Name.Name == "init" && fn.Recv == nil {
				ast.Inspect(fn.Body, func(n ast.Node) bool {
					if as, ok := n.(*ast.AssignStmt); ok && len(as.Lhs) == 1 {
						if id, ok := as.Lhs[0].(*ast.Ident); ok && id.Name == "symbols" {
							if cl, ok := as.Rhs[0].(*ast.CompositeLit); ok {
								lit = cl
							}
						}
					}
					return true
				})
			}
		}
	}
	_ = fd
	if lit == nil {
		g.errorf("symbols: table literal not found in init()")
		return tab
	}
	for _, el := range lit.Elts {
		kv, ok := el.(*ast.KeyValueExpr)
		if !ok {
			g.errorf("symbols: unexpected table element")
			continue
		}
		k, ok := kv.Key.(*ast.BasicLit)
		if !ok {
			g.errorf("symbols: non-literal key")
			continue
		}
		key, _ := strconv.Unquote(k.Value)
		ent := symEntry{}
		cl, ok := kv.Value.(*ast.CompositeLit)
		if !ok {
			g.errorf("symbols: entry %q is not a literal", key)
			continue
		}
		for _, f := range cl.Elts {
			fkv, ok := f.(*ast.KeyValueExpr)
			if !ok {
				g.errorf("symbols: entry %q has positional fields", key)
				continue
			}
			name := fkv.Key.(*ast.Ident).Name
			switch name {
			case "Lbp":
				tv := g.P.Info.Types[fkv.Value]
				if tv.Value == nil || tv.Value.Kind() != constant.Int {
					g.errorf("symbols: Lbp of %q is not a constant", key)
					continue
				}
				v, _ := constant.Int64Val(tv.Value)
				ent.Lbp = int(v)
			case "Led", "Nud":
				id, ok := fkv.Value.(*ast.Ident)
				if !ok {
					g.errorf("symbols: %s of %q is not a function name", name, key)
					continue
				}
				if name == "Led" {
					ent.Led = id.Name
				} else {
					ent.Nud = id.Name
				}
			default:
				g.errorf("symbols: unknown field %s", name)
			}
		}
		if _, dup := tab[key]; dup {
			g.errorf("symbols: duplicate key %q", key)
		}
		tab[key] = ent
	}
	g.symtab = tab
	return tab
}

// Go's five binary precedence levels (from the property statement / the Go specification).
var goLevels = map[string]int{
	"*": 5, "/": 5, "%": 5, "<<": 5, ">>": 5, "&": 5,
	"+": 4, "-": 4, "|": 4, "^": 4,
	"==": 3, "!=": 3, "<": 3, "<=": 3, ">": 3, ">=": 3,
	"&&": 2,
	"||": 1,
}
var assignOps = []string{":=", "=", "+=", "-=", "*=", "/=", "%=", "|=", "^=", "&=", "<<=", ">>=", ","}
var postfixOps = []string{"++", "--", ".", "(", "[", "{"}

func (g *Gen) maxBinaryLbp() int {
	m := 0
	for op := range goLevels {
		if e, ok := g.symbolTable()[op]; ok && e.Lbp > m {
			m = e.Lbp
		}
	}
	return m
}
func (g *Gen) minPostfixLbp() int {
	m := 1 << 30
	for _, op := range postfixOps {
		if e, ok := g.symbolTable()[op]; ok && e.Lbp < m {
			m = e.Lbp
		}
	}
	return m
}

func (g *Gen) symbolObligations(id string) {
	if id != "C05" {
		return
	}
	tab := g.symbolTable()
	var ops []string
	for op := range goLevels {
		ops = append(ops, op)
	}
	// operators of Go that the language may or may not have: if the table has them, their level
	// must be Go's (T1); nothing is required if it does not
	optional := map[string]bool{}
	for op, lvl := range map[string]int{"&^": 5} {
		if _, ok := tab[op]; ok {
			goLevels[op] = lvl
			optional[op] = true
			ops = append(ops, op)
		}
	}
	sort.Strings(ops)
	add := func(name, goal, text string) {
		g.Obls = append(g.Obls, &Obligation{Name: name, Props: []string{"C05"}, Goal: goal, Text: text, Unit: "symbols"})
	}
	// the table as SMT constants
	decl := func(op string) string { return fmt.Sprintf("lbp_%s", sanitize(fmt.Sprintf("%x", op))) }
	var hyps []string
	for _, op := range ops {
		e, ok := tab[op]
		if !ok {
			add("symbols/T0["+op+"]", "false", "binary operator "+op+" is missing from the symbol table")
			continue
		}
		g.Pre.add(fmt.Sprintf("(declare-const %s Int)", decl(op)))
		hyps = append(hyps, smtEq(decl(op), fmt.Sprint(e.Lbp)))
	}
	for _, o1 := range ops {
		if _, ok := tab[o1]; !ok {
			continue
		}
		// T1: relative order of binding powers equals the relative order of Go's levels
		var parts []string
		for _, o2 := range ops {
			if _, ok := tab[o2]; !ok {
				continue
			}
			parts = append(parts, smtEq(ifs(goLevels[o1] < goLevels[o2], "true", "false"), app("<", decl(o1), decl(o2))))
		}
		o := &Obligation{Name: "symbols/T1[" + o1 + "]", Props: []string{"C05"}, Hyps: hyps, Goal: smtAnd(parts...), Unit: "symbols",
			Text: fmt.Sprintf("operator %s (Go level %d, Lbp %d): for every binary operator o, level(%s) < level(o) <=> Lbp(%s) < Lbp(o)", o1, goLevels[o1], tab[o1].Lbp, o1, o1)}
		g.Obls = append(g.Obls, o)
		if optional[o1] {
			continue
		}
		// T2: parsed by the generic infix handler
		add("symbols/T2["+o1+"]", ifs(tab[o1].Led == "ledInfix", "true", "false"), "binary operator "+o1+" is handled by ledInfix (left-associative infix), found "+tab[o1].Led)
	}
	// T3: assignment operators and the comma bind looser than every binary operator; postfix/call/index tighter
	minBin := 1 << 30
	for _, op := range ops {
		if e, ok := tab[op]; ok && e.Lbp < minBin {
			minBin = e.Lbp
		}
	}
	for _, op := range assignOps {
		e, ok := tab[op]
		add("symbols/T3["+op+"]", ifs(ok && e.Lbp < minBin, "true", "false"), fmt.Sprintf("%s binds looser (Lbp %d) than every binary operator (min %d)", op, e.Lbp, minBin))
	}
	for _, op := range postfixOps {
		e, ok := tab[op]
		add("symbols/T4["+op+"]", ifs(ok && e.Lbp > g.maxBinaryLbp(), "true", "false"), fmt.Sprintf("%s binds tighter (Lbp %d) than every binary operator (max %d)", op, e.Lbp, g.maxBinaryLbp()))
	}
	// M1: maximal munch in tokenize needs every 3-character operator's 2-character prefix to be a symbol
	for k := range tab {
		if len(k) == 3 && strings.Trim(k, "`~!.#$%^&*()-=+[{]}\\|;:,<.>/?") == "" && k != "..." {
			_, ok := tab[k[:2]]
			add("symbols/M1["+k+"]", ifs(ok, "true", "false"), "the 2-character prefix of "+k+" is a symbol (the tokenizer's lookahead chain finds the longest operator)")
		}
	}
	_ = token.ADD
}

// ---------------------------------------------------------------------------------------------
// C16: the hoisting order of treeSort, extracted from its priority map literal.
// ---------------------------------------------------------------------------------------------
func (g *Gen) sortObligations(id string) {
	if id != "C16" {
		return
	}
	fd := g.P.Funcs["treeSort"]
	add := func(name, goal, text string) {
		g.Obls = append(g.Obls, &Obligation{Name: name, Props: []string{"C16"}, Goal: goal, Text: text, Unit: "treeSort"})
	}
	if fd == nil {
		g.errorf("treeSort: function not found")
		return
	}
	prio := map[string]int64{}
	stable := false
	var less *ast.FuncLit
	ast.Inspect(fd.Body, func(n ast.Node) bool {
		switch x := n.(type) {
		case *ast.CompositeLit:
			if _, ok := g.P.Info.Types[x].Type.Underlying().(interface{ Key() interface{} }); ok {
			}
			for _, el := range x.Elts {
				kv, ok := el.(*ast.KeyValueExpr)
				if !ok {
					continue
				}
				k, ok := kv.Key.(*ast.BasicLit)
				if !ok {
					continue
				}
				key, _ := strconv.Unquote(k.Value)
				tv := g.P.Info.Types[kv.Value]
				if tv.Value != nil && tv.Value.Kind() == constant.Int {
					v, _ := constant.Int64Val(tv.Value)
					prio[key] = v
				}
			}
		case *ast.CallExpr:
			if sel, ok := x.Fun.(*ast.SelectorExpr); ok {
				if id, ok := sel.X.(*ast.Ident); ok && id.Name == "sort" {
					if sel.Sel.Name == "SliceStable" {
						stable = true
						if len(x.Args) == 2 {
							less, _ = x.Args[1].(*ast.FuncLit)
						}
					}
				}
			}
		}
		return true
	})
	p := func(k string) int64 { return prio[k] } // absent keys: Go's zero value 0 = "everything else"
	add("treeSort/stable", ifs(stable, "true", "false"), "the declarations are reordered with sort.SliceStable (equal-priority nodes keep their source order)")
	add("treeSort/hoist-function", ifs(p("function") > 0, "true", "false"), fmt.Sprintf("functions (priority %d) are hoisted above statements and initialisers (priority 0)", p("function")))
	add("treeSort/hoist-method", ifs(p("method") > 0, "true", "false"), fmt.Sprintf("methods (priority %d) are hoisted above statements (0)", p("method")))
	add("treeSort/hoist-type", ifs(p("type") > p("method") && p("type") > p("function"), "true", "false"), fmt.Sprintf("types (%d) come before methods (%d) and functions (%d): a method needs its type object", p("type"), p("method"), p("function")))
	add("treeSort/import-first", ifs(p("import") > p("type"), "true", "false"), "imports precede every declaration")
	add("treeSort/const", ifs(p("const") > 0, "true", "false"), "constants are in place before statements run")
	add("treeSort/init-last", ifs(p("init") < 0, "true", "false"), fmt.Sprintf("init functions (priority %d) run after all statements (0)", p("init")))
	for _, k := range []string{"var", ":=", "=", "call", "if", "for", "(name)"} {
		add("treeSort/statement-class["+k+"]", ifs(p(k) == 0, "true", "false"), "statement kind "+k+" stays in the stable default class 0")
	}
	// the comparator is a strict 'greater priority first'
	cmpOK := false
	if less != nil {
		ast.Inspect(less.Body, func(n ast.Node) bool {
			if r, ok := n.(*ast.ReturnStmt); ok && len(r.Results) == 1 {
				if b, ok := r.Results[0].(*ast.BinaryExpr); ok && b.Op == token.GTR {
					x, okx := b.X.(*ast.Ident)
					y, oky := b.Y.(*ast.Ident)
					if okx && oky && x.Name == "am" && y.Name == "bm" {
						cmpOK = true
					}
				}
			}
			return true
		})
	}
	add("treeSort/comparator", ifs(cmpOK, "true", "false"), "less(a, b) is prio(a) > prio(b): a strict weak order, higher priority first")
}

// ---------------------------------------------------------------------------------------------
// C04: typed declarations with an initialiser (`var x T = e`, compile case ":=" / "var") must
// convert the initialiser to T for every numeric T. The compiler does this with a CAST guarded by
// a literal list of types; the obligations say that the list contains every fixed-width numeric
// type (extracted from the AST: every `slices.Contains([]Type{...}, typ)` guard whose block emits
// codeCast).
// ---------------------------------------------------------------------------------------------
func (g *Gen) castObligations(id string) {
	if id != "C04" {
		return
	}
	fd := g.P.Funcs["(*compiler).compile"]
	if fd == nil {
		g.errorf("cast-list: (*compiler).compile not found")
		return
	}
	numeric := []string{"TypeInt8", "TypeUint8", "TypeInt32", "TypeUint32", "TypeFloat64"}
	found := 0
	ast.Inspect(fd.Body, func(n ast.Node) bool {
		ifs, ok := n.(*ast.IfStmt)
		if !ok {
			return true
		}
		call, ok := ifs.Cond.(*ast.CallExpr)
		if !ok || len(call.Args) != 2 {
			return true
		}
		sel, ok := call.Fun.(*ast.SelectorExpr)
		if !ok || sel.Sel.Name != "Contains" {
			return true
		}
		lit, ok := call.Args[0].(*ast.CompositeLit)
		if !ok {
			return true
		}
		emitsCast := false
		ast.Inspect(ifs.Body, func(m ast.Node) bool {
			if id, ok := m.(*ast.Ident); ok && id.Name == "codeCast" {
				emitsCast = true
			}
			return true
		})
		if !emitsCast {
			return true
		}
		found++
		have := map[string]bool{}
		for _, el := range lit.Elts {
			if id, ok := el.(*ast.Ident); ok {
				have[id.Name] = true
			}
		}
		for _, t := range numeric {
			g.Obls = append(g.Obls, &Obligation{
				Name: fmt.Sprintf("compile[\":=\"]/cast-list#%d[%s]", found, t), Props: []string{"C04"}, Unit: "(*compiler).compile",
				Goal: ifs2(have[t]), Text: "a typed declaration of type " + t + " with an initialiser converts the initialiser (CAST guard list contains " + t + ")",
			})
		}
		return true
	})
	if found == 0 {
		g.errorf("cast-list: no CAST guard found in compile (the obligation cannot be stated)")
	}
}

func ifs2(b bool) string {
	if b {
		return "true"
	}
	return "false"
}

package main

import (
	"fmt"
	"go/ast"
	"go/parser"
	"go/types"
	"strings"
)

// evSpec evaluates a contract expression (Go expression syntax extended with ==>, <==>,
// forall/exists x T :: body) in spec mode.
func (e *Ev) evSpec(text string) Term {
	was := e.spec
	e.spec = true
	defer func() { e.spec = was }()
	return e.specExpr(strings.TrimSpace(text))
}

func hasSpecSyntax(s string) bool {
	return strings.Contains(s, "==>") || strings.Contains(s, "forall ") || strings.Contains(s, "exists ")
}

// splitTop splits s at top-level occurrences of sep (outside (), [], {} and string literals).
func splitTop(s, sep string) []string {
	var parts []string
	depth := 0
	last := 0
	inStr := byte(0)
	for i := 0; i < len(s); i++ {
		c := s[i]
		if inStr != 0 {
			if c == '\\' {
				i++
			} else if c == inStr {
				inStr = 0
			}
			continue
		}
		switch c {
		case '"', '\'', '`':
			inStr = c
		case '(', '[', '{':
			depth++
		case ')', ']', '}':
			depth--
		default:
			if depth == 0 && strings.HasPrefix(s[i:], sep) {
				// do not split "==>" inside "<==>" when sep is "==>"
				if sep == "==>" && i > 0 && s[i-1] == '<' {
					continue
				}
				parts = append(parts, s[last:i])
				last = i + len(sep)
				i += len(sep) - 1
			}
		}
	}
	parts = append(parts, s[last:])
	return parts
}

func stripParens(s string) (string, bool) {
	s = strings.TrimSpace(s)
	if len(s) < 2 || s[0] != '(' || s[len(s)-1] != ')' {
		return s, false
	}
	depth := 0
	for i := 0; i < len(s); i++ {
		switch s[i] {
		case '(':
			depth++
		case ')':
			depth--
			if depth == 0 && i != len(s)-1 {
				return s, false
			}
		}
	}
	return strings.TrimSpace(s[1 : len(s)-1]), true
}

func (e *Ev) specExpr(s string) Term {
	s = strings.TrimSpace(s)
	boolT := types.Typ[types.Bool]
	if !hasSpecSyntax(s) {
		x, err := parser.ParseExpr(s)
		if err != nil {
			return e.errorf(nil, "cannot parse spec %q: %v", s, err)
		}
		t := e.ev(x)
		if t.Sort == "nil" {
			return t
		}
		return t
	}
	if strings.HasPrefix(s, "forall ") || strings.HasPrefix(s, "exists ") {
		q := s[:6]
		rest := s[7:]
		i := strings.Index(rest, "::")
		if i < 0 {
			return e.errorf(nil, "quantifier without :: in %q", s)
		}
		var binds []string
		saved := map[string]*Term{}
		var names []string
		for _, b := range strings.Split(rest[:i], ",") {
			f := strings.Fields(b)
			if len(f) != 2 {
				return e.errorf(nil, "bad binder %q", b)
			}
			tx, err := parser.ParseExpr(f[1])
			if err != nil {
				return e.errorf(nil, "bad binder type %q", f[1])
			}
			gt := e.evType(tx)
			if gt == nil {
				return e.errorf(nil, "unknown binder type %q", f[1])
			}
			sort := e.sortOf(gt)
			nm := e.g().freshName("q$" + f[0])
			binds = append(binds, fmt.Sprintf("(%s %s)", nm, sort))
			if old, ok := e.bound[f[0]]; ok {
				o := old
				saved[f[0]] = &o
			} else {
				saved[f[0]] = nil
			}
			e.bound[f[0]] = Term{S: nm, Sort: sort, T: gt, Signed: isSigned(gt)}
			names = append(names, f[0])
		}
		nq := len(e.qvars)
		e.qvars = append(e.qvars, binds...)
		if e.qindex == nil {
			e.qindex = map[string][][2]string{}
		}
		var smtNames []string
		for _, n := range names {
			smtNames = append(smtNames, e.bound[n].S)
		}
		body := e.specExpr(rest[i+2:])
		e.qvars = e.qvars[:nq]
		for _, n := range names {
			if saved[n] != nil {
				e.bound[n] = *saved[n]
			} else {
				delete(e.bound, n)
			}
		}
		// Re-index: a bound variable j used as s[j] is replaced by the absolute array index
		// p = off(s)+j, and the element access becomes the trigger. Matching on (+ off j) would
		// need arithmetic in the pattern, which E-matching cannot do. When j indexes two different
		// slices (a[j] == b[j]) the formula is emitted twice, re-indexed on either side, so that it
		// can be instantiated from terms of both heaps.
		if len(smtNames) == 1 && binds[0] == fmt.Sprintf("(%s Int)", smtNames[0]) {
			nm := smtNames[0]
			cands := e.qindex[nm]
			delete(e.qindex, nm)
			var versions []string
			for k, ci := range cands {
				off, sel := ci[0], ci[1]
				if strings.Contains(off, nm) {
					continue
				}
				p := fmt.Sprintf("%sp%d", nm, k)
				bs := body.S
				bs = strings.ReplaceAll(bs, "(+ "+off+" "+nm+")", p)
				bs = strings.ReplaceAll(bs, nm+")", "(- "+p+" "+off+"))")
				bs = strings.ReplaceAll(bs, nm+" ", "(- "+p+" "+off+") ")
				pat := strings.ReplaceAll(sel, "(+ "+off+" "+nm+")", p)
				if q == "exists" {
					// witnesses of existentials over slice positions are marked with slot$ (always
					// true), and the marker is an alternative trigger: a witness found in one heap
					// version instantiates the negated existentials over every other version
					e.g().Pre.add("(declare-fun slot$ (Int) Bool)")
					e.g().Pre.add("(assert (forall ((p Int)) (! (slot$ p) :pattern ((slot$ p)))))")
					versions = append(versions, fmt.Sprintf("(exists ((%s Int)) (! (and (slot$ %s) %s) :pattern (%s) :pattern ((slot$ %s))))", p, p, bs, pat, p))
					continue
				}
				versions = append(versions, fmt.Sprintf("(%s ((%s Int)) (! %s :pattern (%s)))", q, p, bs, pat))
			}
			if len(versions) > 0 {
				if q == "exists" {
					// each version is equivalent; the disjunction lets a negated occurrence be
					// instantiated from either heap's terms
					return Term{S: smtOr(versions...), Sort: sBool, T: boolT}
				}
				return Term{S: smtAnd(versions...), Sort: sBool, T: boolT}
			}
		}
		if len(smtNames) > 1 {
			// several bound variables: each one that is used as a plain slice index is re-indexed on
			// its first use; the accesses together form one multi-pattern
			bs := body.S
			var pats []string
			nb := append([]string{}, binds...)
			for k, nm := range smtNames {
				cands := e.qindex[nm]
				delete(e.qindex, nm)
				if len(cands) == 0 || nb[k] != fmt.Sprintf("(%s Int)", nm) {
					continue
				}
				off, sel := cands[0][0], cands[0][1]
				bad := false
				for _, other := range smtNames {
					if strings.Contains(off, other) {
						bad = true
					}
				}
				if bad {
					continue
				}
				p := fmt.Sprintf("%sp", nm)
				bs = strings.ReplaceAll(bs, "(+ "+off+" "+nm+")", p)
				bs = strings.ReplaceAll(bs, nm+")", "(- "+p+" "+off+"))")
				bs = strings.ReplaceAll(bs, nm+" ", "(- "+p+" "+off+") ")
				nb[k] = fmt.Sprintf("(%s Int)", p)
				pats = append(pats, strings.ReplaceAll(sel, "(+ "+off+" "+nm+")", p))
			}
			if len(pats) > 0 {
				return Term{S: fmt.Sprintf("(%s (%s) (! %s :pattern (%s)))", q, strings.Join(nb, " "), bs, strings.Join(pats, " ")), Sort: sBool, T: boolT}
			}
		}
		for _, nm := range smtNames {
			delete(e.qindex, nm)
		}
		bs := body.S
		if k := strings.Index(bs, "(trig$"); k >= 0 {
			// explicit trigger marker
			depth, end := 0, -1
			for j := k; j < len(bs); j++ {
				if bs[j] == '(' {
					depth++
				} else if bs[j] == ')' {
					depth--
					if depth == 0 {
						end = j + 1
						break
					}
				}
			}
			if end > 0 {
				return Term{S: fmt.Sprintf("(%s (%s) (! %s :pattern (%s)))", q, strings.Join(binds, " "), bs, bs[k:end]), Sort: sBool, T: boolT}
			}
		}
		return Term{S: fmt.Sprintf("(%s (%s) %s)", q, strings.Join(binds, " "), bs), Sort: sBool, T: boolT}
	}
	if parts := splitTop(s, "<==>"); len(parts) > 1 {
		a := e.specExpr(parts[0])
		b := e.specExpr(strings.Join(parts[1:], "<==>"))
		return Term{S: smtEq(a.S, b.S), Sort: sBool, T: boolT}
	}
	if parts := splitTop(s, "==>"); len(parts) > 1 {
		a := e.specExpr(parts[0])
		e.guard = append(e.guard, a.S)
		b := e.specExpr(strings.Join(parts[1:], "==>"))
		e.guard = e.guard[:len(e.guard)-1]
		return Term{S: smtImp(a.S, b.S), Sort: sBool, T: boolT}
	}
	if parts := splitTop(s, "||"); len(parts) > 1 {
		var ts []string
		for _, p := range parts {
			ts = append(ts, e.specExpr(p).S)
		}
		return Term{S: smtOr(ts...), Sort: sBool, T: boolT}
	}
	if parts := splitTop(s, "&&"); len(parts) > 1 {
		var ts []string
		for _, p := range parts {
			ts = append(ts, e.specExpr(p).S)
		}
		return Term{S: smtAnd(ts...), Sort: sBool, T: boolT}
	}
	if in, ok := stripParens(s); ok {
		return e.specExpr(in)
	}
	if strings.HasPrefix(s, "!") {
		if in, ok := stripParens(s[1:]); ok {
			t := e.specExpr(in)
			return Term{S: smtNot(t.S), Sort: sBool, T: boolT}
		}
	}
	if strings.HasPrefix(s, "old(") {
		if in, ok := stripParens(s[3:]); ok {
			e2 := *e
			e2.st = e.old
			return e2.specExpr(in)
		}
	}
	return e.errorf(nil, "spec syntax (==>, forall) nested inside an expression is unsupported: %q", s)
}

// specCall handles spec-only builtins; ok=false if name is not one.
func (e *Ev) specCall(name string, n *ast.CallExpr) (Term, bool) {
	boolT := types.Typ[types.Bool]
	switch name {
	case "old":
		e2 := *e
		e2.st = e.old
		if e.old == nil {
			return e.errorf(n, "old() without an old state"), true
		}
		return e2.ev(n.Args[0]), true
	case "ite":
		c := e.ev(n.Args[0])
		a := e.ev(n.Args[1])
		b := e.ev(n.Args[2])
		a, b = e.unify(a, b)
		r := a
		r.S = smtIte(c.S, a.S, b.S)
		return r, true
	case "same":
		a := e.ev(n.Args[0])
		b := e.ev(n.Args[1])
		a, b = e.unify(a, b)
		return Term{S: smtEq(a.S, b.S), Sort: sBool, T: boolT}, true
	case "is":
		x := e.ev(n.Args[0])
		to := e.evType(n.Args[1])
		_, ok := e.assertTo(x, to, n)
		return Term{S: ok, Sort: sBool, T: boolT}, true
	case "as":
		x := e.ev(n.Args[0])
		to := e.evType(n.Args[1])
		v, _ := e.assertTo(x, to, n)
		return v, true
	case "isnil":
		x := e.ev(n.Args[0])
		return e.nilCompare(0x27 /*token.EQL*/, x, Term{Sort: "nil"}, n), true
	case "aliases":
		// aliases(a, b, i): slice a is b[i:] in the same array
		a := e.ev(n.Args[0])
		b := e.ev(n.Args[1])
		i := e.asInt(e.ev(n.Args[2]))
		return Term{S: smtAnd(smtEq(app("sarr", a.S), app("sarr", b.S)), smtEq(app("soff", a.S), app("+", app("soff", b.S), i))), Sort: sBool, T: boolT}, true
	case "arr":
		a := e.ev(n.Args[0])
		return Term{S: app("sarr", a.S), Sort: sInt, T: types.Typ[types.Int]}, true
	case "off":
		a := e.ev(n.Args[0])
		return Term{S: app("soff", a.S), Sort: sInt, T: types.Typ[types.Int]}, true
	case "isfresh":
		a := e.ev(n.Args[0])
		s := a.S
		if a.Sort == sSlice {
			s = app("sarr", a.S)
		}
		e.g().Pre.addFresh()
		if e.allocPred != "" {
			return Term{S: app(e.allocPred, s), Sort: sBool, T: boolT}, true
		}
		return Term{S: app("fresh$", s), Sort: sBool, T: boolT}, true
	case "runeAt", "runeWidth":
		// Go's decoder on a string at a byte offset (the functions the engine's range-over-string
		// model uses)
		g := e.g()
		g.Pre.add("(declare-fun str_runeat (Str Int) (_ BitVec 32))")
		g.Pre.add("(declare-fun str_runewidth (Str Int) Int)")
		g.Pre.add("(assert (forall ((s Str) (i Int)) (! (=> (and (<= 0 i) (< i (str_len s))) (and (<= 1 (str_runewidth s i)) (<= (+ i (str_runewidth s i)) (str_len s)))) :pattern ((str_runewidth s i)))))")
		x := e.ev(n.Args[0])
		i := e.asInt(e.ev(n.Args[1]))
		if name == "runeAt" {
			return Term{S: app("str_runeat", x.S, i), Sort: sBV32, T: types.Typ[types.Rune], Signed: true}, true
		}
		return Term{S: app("str_runewidth", x.S, i), Sort: sInt, T: types.Typ[types.Int], Signed: true}, true
	case "calls":
		// calls("KEY"): how many calls of function KEY the path has made so far (a ghost counter;
		// lets a contract say that one call is always accompanied by another)
		if lit, ok := n.Args[0].(*ast.BasicLit); ok {
			key := strings.Trim(lit.Value, "\"`")
			return Term{S: e.callCount(key), Sort: sInt, T: types.Typ[types.Int], Signed: true}, true
		}
		return e.errorf(n, "calls: needs a string literal"), true
	case "oldElem":
		// oldElem(s, j): element j of slice s (header and index evaluated NOW) as it was in the
		// old state; for invariants that relate a local index to the entry contents
		x := e.ev(n.Args[0])
		st, ok := x.T.Underlying().(*types.Slice)
		if !ok || e.old == nil {
			return e.errorf(n, "oldElem: needs a slice and an old state"), true
		}
		i := e.asInt(e.ev(n.Args[1]))
		es := e.sortOf(st.Elem())
		e2 := *e
		e2.st = e.old
		h := e2.elemHeap(es)
		sel := app("select", app("select", h, app("sarr", x.S)), app("+", app("soff", x.S), i))
		if e.qindex != nil && strings.HasPrefix(i, "q$") && !strings.Contains(i, " ") && !strings.Contains(x.S, i) && len(e.qindex[i]) < 2 {
			dup := false
			for _, c := range e.qindex[i] {
				if c[1] == sel {
					dup = true
				}
			}
			if !dup {
				e.qindex[i] = append(e.qindex[i], [2]string{app("soff", x.S), sel})
			}
		}
		return Term{S: sel, Sort: es, T: st.Elem(), Signed: isSigned(st.Elem())}, true
	case "trig":
		// trig(x, ...): an always-true marker whose only purpose is to be the instantiation
		// trigger of the enclosing quantifier (for bound variables that occur under no function
		// symbol, e.g. forall k, x :: trig(k, x) ==> (holds(m, k, x) <==> ...))
		var sorts, as []string
		for _, a := range n.Args {
			t := e.ev(a)
			if t.UConst != nil {
				t = e.coerce(t, sInt, true, nil)
			}
			sorts = append(sorts, t.Sort)
			as = append(as, t.S)
		}
		fn := "trig$" + sanitize(strings.Join(sorts, "_"))
		var bs, vs []string
		for i, srt := range sorts {
			bs = append(bs, fmt.Sprintf("(t%d %s)", i, srt))
			vs = append(vs, fmt.Sprintf("t%d", i))
		}
		e.g().Pre.add(fmt.Sprintf("(declare-fun %s (%s) Bool)", fn, strings.Join(sorts, " ")))
		e.g().Pre.add(fmt.Sprintf("(assert (forall (%s) (! %s :pattern (%s))))", strings.Join(bs, " "), app(fn, vs...), app(fn, vs...)))
		return Term{S: app(fn, as...), Sort: sBool, T: boolT}, true
	case "inrange":
		// inrange(x, lo, hi): lo <= x < hi on mathematical ints
		x := e.asInt(e.ev(n.Args[0]))
		lo := e.asInt(e.ev(n.Args[1]))
		hi := e.asInt(e.ev(n.Args[2]))
		return Term{S: smtAnd(app("<=", lo, x), app("<", x, hi)), Sort: sBool, T: boolT}, true
	case "elemsAt":
		// elemsAt(T, a): the contents of backing array a of element type T (a whole SMT array)
		t := e.evType(n.Args[0])
		if t == nil {
			return e.errorf(n, "elemsAt: unknown type"), true
		}
		es := e.sortOf(t)
		a := e.asInt(e.ev(n.Args[1]))
		h := e.elemHeap(es)
		return Term{S: app("select", h, a), Sort: fmt.Sprintf("(Array Int %s)", es)}, true
	case "fst", "snd":
		t := e.ev(n.Args[0])
		k := 0
		if name == "snd" {
			k = 1
		}
		if k >= len(t.Tuple) {
			return e.errorf(n, "%s of non-tuple", name), true
		}
		return t.Tuple[k], true
	case "maxBinaryLbp":
		return Term{S: fmt.Sprint(e.g().maxBinaryLbp()), Sort: sInt, T: types.Typ[types.Int], Signed: true}, true
	case "minPostfixLbp":
		return Term{S: fmt.Sprint(e.g().minPostfixLbp()), Sort: sInt, T: types.Typ[types.Int], Signed: true}, true
	case "haskey":
		// haskey(m, k): k is a key of the Go map m
		m := e.ev(n.Args[0])
		mt, ok := m.T.Underlying().(*types.Map)
		if !ok {
			return e.errorf(n, "haskey: not a map"), true
		}
		k := e.toType(e.ev(n.Args[1]), mt.Key(), n)
		l := &Loc{Kind: "mapelem", Ref: m.S, Idx: k.S, T: mt.Elem(), Name: e.mapHeapBase(mt)}
		return Term{S: e.mapHas(l), Sort: sBool, T: boolT}, true
	case "inSlice":
		// inSlice(s, x): some element of s equals x. Encoded without an existential through a
		// choice function find$ that returns an index of x whenever there is one (axiom below).
		sl := e.ev(n.Args[0])
		st, ok := sl.T.Underlying().(*types.Slice)
		if !ok {
			return e.errorf(n, "inSlice: not a slice"), true
		}
		x := e.toType(e.ev(n.Args[1]), st.Elem(), n)
		es := e.sortOf(st.Elem())
		fn := "find$" + sanitize(es)
		as := fmt.Sprintf("(Array Int %s)", es)
		e.g().Pre.add(fmt.Sprintf("(declare-fun %s (%s Int Int %s) Int)", fn, as, es))
		e.g().Pre.add(fmt.Sprintf("(assert (forall ((a %s) (o Int) (l Int) (x %s) (i Int)) (! (=> (and (<= o i) (< i (+ o l)) (= (select a i) x)) (and (<= o (%s a o l x)) (< (%s a o l x) (+ o l)) (= (select a (%s a o l x)) x))) :pattern ((%s a o l x) (select a i)))))", as, es, fn, fn, fn, fn))
		h := e.elemHeap(es)
		a := app("select", h, app("sarr", sl.S))
		f := app(fn, a, app("soff", sl.S), app("slen", sl.S), x.S)
		return Term{S: smtAnd(app("<=", app("soff", sl.S), f), app("<", f, app("+", app("soff", sl.S), app("slen", sl.S))), smtEq(app("select", a, f), x.S)), Sort: sBool, T: boolT}, true
	case "mathint":
		x := e.asInt(e.ev(n.Args[0]))
		return Term{S: x, Sort: sInt, T: types.Typ[types.Int], Signed: true}, true
	}
	if b, ok := e.g().C.Specs[name]; ok {
		return e.specFunc(b, n), true
	}
	return Term{}, false
}

// specFunc inlines a spec function: header "name(p T, q U) R", single clause "= expr" (kind "def").
func (e *Ev) specFunc(b *Block, n *ast.CallExpr) Term {
	if b.Kind == "ghost" {
		return e.ghostFunc(b, n)
	}
	if hasFlag(b, "opaque") && !e.u.bv {
		nm := b.Target[:strings.Index(b.Target, "(")]
		if !e.u.revealed(strings.TrimSpace(nm)) {
			// opaque in units that only pass the predicate along: an uninterpreted symbol
			return e.ghostFunc(b, n)
		}
	}
	hdr := b.Target
	i := strings.Index(hdr, "(")
	j := strings.LastIndex(hdr, ")")
	if i < 0 || j < i {
		return e.errorf(n, "bad spec header %q", hdr)
	}
	var pnames []string
	if strings.TrimSpace(hdr[i+1:j]) != "" {
		for _, p := range strings.Split(hdr[i+1:j], ",") {
			f := strings.Fields(p)
			pnames = append(pnames, f[0])
		}
	}
	if len(pnames) != len(n.Args) {
		return e.errorf(n, "spec %s: %d args, want %d", hdr, len(n.Args), len(pnames))
	}
	defs := b.clauses("def")
	if len(defs) != 1 {
		return e.errorf(n, "spec %s needs exactly one def clause", hdr)
	}
	saved := map[string]*Term{}
	var args []Term
	for _, a := range n.Args {
		args = append(args, e.ev(a))
	}
	for k, p := range pnames {
		if old, ok := e.bound[p]; ok {
			o := old
			saved[p] = &o
		} else {
			saved[p] = nil
		}
		e.bound[p] = args[k]
	}
	if hasFlag(b, "named") {
		// heap-independent arithmetic helper kept as a function symbol with a definitional axiom:
		// smaller terms, and applications of it can serve as triggers
		nm := "spec$" + strings.TrimSpace(hdr[:i])
		var bs, vs, sorts []string
		for k := range args {
			if args[k].UConst != nil {
				args[k] = e.coerce(args[k], sInt, true, nil)
			}
		}
		for k := range pnames {
			v := fmt.Sprintf("p%d", k)
			bs = append(bs, fmt.Sprintf("(%s %s)", v, args[k].Sort))
			vs = append(vs, v)
			sorts = append(sorts, args[k].Sort)
			t := args[k]
			t.S = v
			t.UConst = nil
			e.bound[pnames[k]] = t
		}
		body := e.specExpr(defs[0].Text)
		for _, p := range pnames {
			if saved[p] != nil {
				e.bound[p] = *saved[p]
			} else {
				delete(e.bound, p)
			}
		}
		e.g().Pre.add(fmt.Sprintf("(declare-fun %s (%s) %s)", nm, strings.Join(sorts, " "), body.Sort))
		e.g().Pre.add(fmt.Sprintf("(assert (forall (%s) (! (= %s %s) :pattern (%s))))", strings.Join(bs, " "), app(nm, vs...), body.S, app(nm, vs...)))
		var as []string
		for _, a := range args {
			if a.UConst != nil {
				a = e.coerce(a, sInt, true, nil)
			}
			as = append(as, a.S)
		}
		body.S = app(nm, as...)
		return body
	}
	r := e.specExpr(defs[0].Text)
	for _, p := range pnames {
		if saved[p] != nil {
			e.bound[p] = *saved[p]
		} else {
			delete(e.bound, p)
		}
	}
	return r
}

// ghostFunc applies an uninterpreted spec function declared with `ghost name(p T, ...) R`.
// Slice arguments contribute only their header (the ghost is a function of the slice value).
func (e *Ev) ghostFunc(b *Block, n *ast.CallExpr) Term {
	hdr := b.Target
	i := strings.Index(hdr, "(")
	j := strings.LastIndex(hdr, ")")
	name := strings.TrimSpace(hdr[:i])
	rtx, err := parser.ParseExpr(strings.TrimSpace(hdr[j+1:]))
	if err != nil {
		return e.errorf(n, "ghost %s: bad result type", hdr)
	}
	rt := e.evType(rtx)
	if rt == nil {
		return e.errorf(n, "ghost %s: unknown result type", hdr)
	}
	var sorts, as []string
	for _, a := range n.Args {
		t := e.ev(a)
		if t.UConst != nil {
			t = e.coerce(t, sInt, true, nil)
		}
		sorts = append(sorts, t.Sort)
		as = append(as, t.S)
	}
	rs := e.g().sortOf(rt, false)
	fn := "ghost$" + name
	e.g().Pre.add(fmt.Sprintf("(declare-fun %s (%s) %s)", fn, strings.Join(sorts, " "), rs))
	return Term{S: app(fn, as...), Sort: rs, T: rt, Signed: isSigned(rt)}
}

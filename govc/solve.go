package main

import (
	"context"
	"fmt"
	"os"
	"os/exec"
	"path/filepath"
	"strings"
	"sync"
	"time"
)

type solver struct {
	name string
	args func(file string, timeoutS int) []string
}

var solvers = []solver{
	{"z3-new", func(f string, t int) []string { return []string{"z3-new", fmt.Sprintf("-T:%d", t), f} }},
	{"z3", func(f string, t int) []string { return []string{"z3", fmt.Sprintf("-T:%d", t), f} }},
	{"cvc5", func(f string, t int) []string {
		return []string{"cvc5", "--incremental", fmt.Sprintf("--tlimit=%d", t*1000), f}
	}},
}

// useOldZ3: z3 4.8.12 races with the other two unless VERIF_OLDZ3=0 (DESIGN 11.6 E12: its `unsat`
// on a cover query, first taken for a solver bug, exposed an inconsistent axiom).
var useOldZ3 = os.Getenv("VERIF_OLDZ3") != "0"

type solveResult struct {
	result  string // unsat, sat, unknown
	backend string
	ms      int64
	output  string
	all     map[string]string
}

func firstLine(s string) string {
	for _, l := range strings.Split(s, "\n") {
		l = strings.TrimSpace(l)
		if l == "sat" || l == "unsat" || l == "unknown" || l == "timeout" {
			return l
		}
	}
	if strings.Contains(s, "(error ") {
		return "error"
	}
	return "unknown"
}

// runSolvers races the solvers on a query file. If all is set, every solver is run to completion
// (cross-check): the result is unsat only if none says sat and at least one says unsat.
func runSolvers(file string, timeoutS int, all bool, skipCvc5 bool) solveResult {
	return runSolversV([]string{file}, timeoutS, all, skipCvc5)
}

// runSolversV races the solvers over several variants of the same obligation (the full query and
// weakened ones with fewer hypotheses): unsat on any variant discharges the obligation; sat is
// only believed on the first (full) variant.
func runSolversV(files []string, timeoutS int, all bool, skipCvc5 bool) solveResult {
	type one struct {
		name, res, out string
		ms             int64
	}
	ctx, cancel := context.WithCancel(context.Background())
	defer cancel()
	ch := make(chan one, len(solvers)*len(files))
	n := 0
	for vi, file := range files {
		for _, s := range solvers {
			if skipCvc5 && s.name == "cvc5" {
				continue
			}
			if s.name == "z3" && (vi > 0 || !useOldZ3) {
				continue // variants: newest z3 and cvc5 only
			}
			if vi == 2 && s.name == "cvc5" {
				continue
			}
			n++
			go func(s solver, file string, vi int) {
				a := s.args(file, timeoutS)
				t0 := time.Now()
				c, cancel2 := context.WithTimeout(ctx, time.Duration(timeoutS+2)*time.Second)
				defer cancel2()
				cmd := exec.CommandContext(c, a[0], a[1:]...)
				out, _ := cmd.CombinedOutput()
				r := firstLine(string(out))
				name := s.name
				if vi > 0 {
					name += fmt.Sprintf("/light%d", vi)
					if r == "sat" {
						r = "unknown" // a weakened variant cannot refute
					}
				}
				ch <- one{name, r, string(out), time.Since(t0).Milliseconds()}
			}(s, file, vi)
		}
	}
	res := solveResult{result: "unknown", all: map[string]string{}}
	var outs []string
	for i := 0; i < n; i++ {
		o := <-ch
		res.all[o.name] = o.res
		outs = append(outs, fmt.Sprintf("[%s %dms] %s", o.name, o.ms, strings.TrimSpace(o.out)))
		if o.res == "error" {
			res.result = "error"
			res.output = o.out
			res.backend = o.name
			cancel()
			return res
		}
		if o.res == "unsat" || o.res == "sat" {
			if res.result == "unknown" || (o.res == "sat" && res.result == "unsat" && all) {
				if !(res.result == "sat") {
					res.result, res.backend, res.ms = o.res, o.name, o.ms
					if o.res == "sat" {
						res.output = o.out
					}
				}
			}
			if !all {
				cancel()
				break
			}
		}
	}
	if res.output == "" {
		res.output = strings.Join(outs, "\n")
	}
	return res
}

// discharge solves all obligations in parallel.
func (g *Gen) discharge(obls []*Obligation, workDir string, timeoutS int, all bool, jobs int) {
	os.MkdirAll(workDir, 0o755)
	// queries are built sequentially (building may add declarations to the shared prelude; a first
	// pass collects them, the second pass renders the final text)
	for pass := 0; pass < 2; pass++ {
		for _, o := range obls {
			o.qs = [4]string{o.queryV(g, true, 0), "", o.queryV(g, false, 2), o.queryV(g, false, 3)}
		}
	}
	sem := make(chan struct{}, jobs)
	var wg sync.WaitGroup
	for i, o := range obls {
		wg.Add(1)
		sem <- struct{}{}
		go func(i int, o *Obligation) {
			defer wg.Done()
			defer func() { <-sem }()
			q := o.qs[0]
			fn := filepath.Join(workDir, fmt.Sprintf("%04d_%s.smt2", i, sanitize(o.Name)))
			if len(fn) > 200 {
				fn = fn[:190] + ".smt2"
			}
			os.WriteFile(fn, []byte(q), 0o644)
			o.File = fn
			if len(q) > maxQueryBytes {
				o.Result = "unknown"
				o.Output = fmt.Sprintf("query of %d bytes exceeds cap %d", len(q), maxQueryBytes)
				return
			}
			skipCvc5 := strings.Contains(q, "(lambda ")
			if o.Cover {
				// vacuity guard: fails only if the hypotheses are refuted outright
				// (quick: 4 s; thorough: 20 s and every solver is heard)
				ct := 4
				if all {
					ct = 20
				}
				r := runSolvers(fn, ct, false, skipCvc5)
				o.Result, o.Backend, o.Ms, o.Output = r.result, r.backend, r.ms, r.output
				return
			}
			files := []string{fn}
			if o.Raw == "" {
				// first the lightest variant alone: most obligations need none of the dropped hypotheses
				lq := o.qs[3]
				if lq != q {
					lf := strings.TrimSuffix(fn, ".smt2") + ".light3.smt2"
					os.WriteFile(lf, []byte(lq), 0o644)
					r0 := runSolversV([]string{lf}, 3, false, true)
					if r0.result == "unsat" {
						o.Result, o.Backend, o.Ms, o.Output = "unsat", r0.backend+"/light3", r0.ms, r0.output
						if all {
							// cross-check with the other solvers on the same variant
							// (20 s per solver: a refutation of a 3-second proof shows up quickly or not at all)
							xt := timeoutS
							if xt > 20 {
								xt = 20
							}
							r1 := runSolversV([]string{lf}, xt, true, false)
							if r1.result == "sat" {
								o.Result = "unknown"
								o.Output = "solver disagreement on light3 variant:\n" + r1.output
							}
						}
						return
					}
				}
				for k := 2; k <= 3; k++ {
					lq := o.qs[k]
					if lq == files2last(files, q) {
						continue
					}
					lf := strings.TrimSuffix(fn, ".smt2") + fmt.Sprintf(".light%d.smt2", k)
					os.WriteFile(lf, []byte(lq), 0o644)
					files = append(files, lf)
				}
			}
			if o.KnownFinding {
				// a recorded finding: one short attempt is enough to see that it is still refuted
				r := runSolversV(files, 5, false, skipCvc5)
				o.Result, o.Backend, o.Ms, o.Output = r.result, r.backend, r.ms, r.output
				return
			}
			r := runSolversV(files, timeoutS, all && !o.Cover, skipCvc5)
			if r.result != "unsat" && o.Raw == "" {
				// candidate counterexample search in the integer-carrier interpretation
				cf := strings.TrimSuffix(fn, ".smt2") + ".cex.smt2"
				os.WriteFile(cf, []byte(cexQuery(q)), 0o644)
				cr := runSolvers(cf, 10, false, true)
				if cr.result == "sat" {
					o.CexOutput = cr.output
				}
			}
			if r.result == "unknown" && o.CexOutput == "" {
				// one retry with a longer limit before giving up
				r2 := runSolversV(files, timeoutS*3, false, skipCvc5)
				if r2.result != "unknown" {
					r = r2
				} else {
					r.output += "\n--- retry ---\n" + r2.output
				}
			}
			o.Result, o.Backend, o.Ms, o.Output = r.result, r.backend, r.ms, r.output
		}(i, o)
	}
	wg.Wait()
}

const maxQueryBytes = 1 << 20

// cexQuery rewrites a failed query into the "integer carrier" interpretation used only to FIND
// candidate counterexamples: float64 is read as the int64 it carries (toF64 = identity,
// fromF_N = truncation, fp arithmetic = integer arithmetic). It is quantifier-free bit-vector
// logic, so the solver answers quickly; every candidate is then replayed on the real code,
// which is what decides whether it is a real failing input.
func cexQuery(q string) string {
	var out []string
	for _, l := range strings.Split(q, "\n") {
		switch {
		case strings.HasPrefix(l, "(define-sort F64"):
			l = "(define-sort F64 () (_ BitVec 64))"
		case strings.HasPrefix(l, "(declare-fun toF64 "):
			l = "(define-fun toF64 ((y (_ BitVec 64))) F64 y)"
		case strings.HasPrefix(l, "(declare-fun utoF64 "):
			l = "(define-fun utoF64 ((y (_ BitVec 64))) F64 y)"
		case strings.HasPrefix(l, "(declare-fun fromF_"):
			n := l[len("(declare-fun fromF_"):]
			n = n[:strings.Index(n, " ")]
			w := carrierWidth(n)
			if w == 64 {
				l = fmt.Sprintf("(define-fun fromF_%s ((f F64)) (_ BitVec 64) f)", n)
			} else {
				l = fmt.Sprintf("(define-fun fromF_%s ((f F64)) (_ BitVec %d) ((_ extract %d 0) f))", n, w, w-1)
			}
		case strings.HasPrefix(l, "(assert (forall ((y (_ BitVec 64))) (! (=> (and (bvsle"):
			continue // carrier axioms hold by definition here
		case strings.HasPrefix(l, "(declare-fun go_bv"):
			continue
		case strings.HasPrefix(l, "(assert (forall ((n Int)) (! (= (bv2i64"), strings.HasPrefix(l, "(assert (forall ((y (_ BitVec 64))) (! (= (i2bv64"):
			continue // bridge axioms: dropped for model finding (candidates are replayed)
		}
		out = append(out, l)
	}
	s := strings.Join(out, "\n")
	s = strings.ReplaceAll(s, "(_ +zero 11 53)", "#x0000000000000000")
	for _, r := range [][2]string{{"(fp.add RNE ", "(bvadd "}, {"(fp.sub RNE ", "(bvsub "}, {"(fp.mul RNE ", "(bvmul "}, {"(fp.div RNE ", "(bvsdiv "},
		{"(fp.lt ", "(bvslt "}, {"(fp.leq ", "(bvsle "}, {"(fp.gt ", "(bvsgt "}, {"(fp.geq ", "(bvsge "}, {"(fp.eq ", "(= "}, {"(fp.neg ", "(bvneg "}} {
		s = strings.ReplaceAll(s, r[0], r[1])
	}
	for _, op := range []string{"bvmul", "bvsdiv", "bvudiv", "bvsrem", "bvurem"} {
		for _, w := range []string{"8", "16", "32", "64"} {
			s = strings.ReplaceAll(s, "(go_"+op+w+" ", "("+op+" ")
		}
	}
	// fp literals -> the integer they denote if integral, else their bit pattern
	for {
		i := strings.Index(s, "(fp #b")
		if i < 0 {
			break
		}
		j := strings.Index(s[i:], ")")
		lit := s[i : i+j+1]
		bits, _ := fpModelBits(lit)
		f := mathFloat64frombits(bits)
		v := bits
		if f == float64(int64(f)) {
			v = uint64(int64(f))
		}
		s = s[:i] + bvLit(v, 64) + s[i+j+1:]
	}
	return s
}

// lightQueries returns weakened variants of a query (fewer hypotheses, hence still proofs when
// unsat): (1) without the quantified valid(...) facts that mention the float carriers,
// (2) additionally without the global carrier / bridge axioms. They are raced with the full query
// because those quantified hypotheses, though rarely needed, derail instantiation.
func lightQueries(q string) []string {
	var l1, l2 []string
	d1, d2 := false, false
	for _, l := range strings.Split(q, "\n") {
		isValidFact := strings.HasPrefix(l, "(assert (forall ((q$") && (strings.Contains(l, "toF64") || strings.Contains(l, "fromF_"))
		isAxiom := strings.HasPrefix(l, "(assert (forall ((y (_ BitVec") || strings.HasPrefix(l, "(assert (forall ((x (_ BitVec") || strings.HasPrefix(l, "(assert (forall ((n Int)) (! (= (bv2i64")
		if isValidFact {
			d1 = true
			continue
		}
		l1 = append(l1, l)
		if isAxiom {
			d2 = true
			continue
		}
		l2 = append(l2, l)
	}
	var out []string
	if d1 {
		out = append(out, strings.Join(l1, "\n"))
	}
	if d2 {
		out = append(out, strings.Join(l2, "\n"))
	}
	return out
}

func files2last(files []string, q string) string {
	if len(files) == 1 {
		return strings.Replace(q, "", "", 0)
	}
	b, _ := os.ReadFile(files[len(files)-1])
	return string(b)
}

package main

import (
	"fmt"
	"os"
	"path/filepath"
	"sort"
	"strings"
)

// generate creates the obligations relevant for property id: every contract block that is
// tagged with the property (at block or clause level) is verified as a unit.
func (g *Gen) generate(id string) {
	done := map[string]bool{}
	for _, b := range g.C.Blocks {
		if b.Kind != "func" {
			continue
		}
		if !blockHasProp(b, id) {
			continue
		}
		if b.Loop >= 0 || b.Context || b.Handler {
			continue // verified as part of their function / case
		}
		if _, ok := b.flag("trusted"); ok && b.Case == "" {
			g.Assumed["trusted contract (not verified): "+b.ID()] = true
			continue
		}
		if _, ok := b.flag("inline"); ok && len(b.Clauses) == 0 {
			continue
		}
		uid := b.ID()
		if done[uid] {
			continue
		}
		done[uid] = true
		switch {
		case b.Case != "":
			g.verifyCase(b)
		case b.Closure >= 0:
			g.verifyClosure(b)
		default:
			// a function with case contracts is proved case by case
			var cases []*Block
			for _, cb := range g.C.Blocks {
				if cb.Kind == "func" && cb.Target == b.Target && cb.Case != "" && cb.Loop < 0 && cb.Closure < 0 {
					cases = append(cases, cb)
				}
			}
			if len(cases) == 0 {
				g.verifyFunc(b.Target)
				break
			}
			fd := g.P.Funcs[b.Target]
			if fd == nil {
				g.errorf("contract for %s: no such function", b.Target)
				break
			}
			have := map[string]bool{}
			for _, cb := range cases {
				have[cb.Case] = true
				if _, tr := cb.flag("trusted"); tr {
					g.Assumed["case not verified (trusted): "+cb.ID()] = true
					continue
				}
				if !done[cb.ID()] {
					done[cb.ID()] = true
					g.verifyCase(cb)
				}
			}
			for _, l := range caseLabels(fd) {
				if !have[l] {
					ub := &Block{Kind: "func", Target: b.Target, Case: l, Loop: -1, Closure: -1, Flags: map[string]string{}, Props: b.Props}
					g.verifyCaseX(ub, true)
				}
			}
		}
	}
	for _, b := range g.C.Blocks {
		if b.Kind == "lemma" && blockHasProp(b, id) {
			g.verifyLemma(b)
		}
	}
	// lemmas and table checks
	g.lemmas(id)
	g.tables(id)
}

func blockHasProp(b *Block, id string) bool {
	if hasProp(b.Props, id) {
		return true
	}
	for _, c := range b.Clauses {
		if hasProp(c.Props, id) {
			return true
		}
	}
	return false
}

// lemmas: carrier lemmas (proved with the real FP semantics) for the properties that rely on them.
func (g *Gen) lemmas(id string) {
	uses := map[string]bool{"C04": true, "C19": true, "C02": true}
	if !uses[id] {
		return
	}
	_, lem := carrierAxioms()
	for _, k := range sortedKeys(lem) {
		g.Obls = append(g.Obls, &Obligation{Name: "lemma/" + k, Props: []string{id}, Raw: lem[k], Text: "carrier lemma " + k + ": float64 round trip of an in-range integer, real IEEE semantics (to_fp RNE / fp.to_sbv RTZ)", Goal: k})
	}
}

func (g *Gen) trustedBase() []string {
	return []string{
		"govc itself: translation of the Go subset to SMT (symbolic execution of the typed AST, slice/heap/map model)",
		"SMT solvers z3 4.8.12, z3 5.1.0, cvc5 1.0.3",
		"A-INT: Go int in index/length arithmetic is mathematical; the bridges i2bv64/bv2i64 are mutually inverse (no 64-bit overflow of lengths and offsets); such a bijection has no model, only no short refutation (DESIGN 11.6 E12)",
		"float64 is IEEE-754 binary64 with round-to-nearest-even; out-of-range float->integer conversion is unspecified (uninterpreted)",
		"pointer receivers are non-nil",
		"contracts of callees are used in place of their bodies (modular); callees tagged 'inline' are executed in place",
	}
}

func (g *Gen) assumptionList(id string) []string {
	var out []string
	for k := range g.Assumed {
		out = append(out, k)
	}
	sort.Strings(out)
	out = append(out, propertyAssumptions[id]...)
	return out
}

// propertyAssumptions: per-property assumptions stated in DESIGN.md section 5.
var propertyAssumptions = map[string][]string{}

// writeReplay writes the replay file of a failed obligation and tries to confirm it on the real code.
func (g *Gen) writeReplay(vd, id string, o *Obligation) string {
	dir := filepath.Join(vd, "replays", id)
	os.MkdirAll(dir, 0o755)
	path := filepath.Join(dir, sanitize(o.Name)+".replay")
	var sb strings.Builder
	fmt.Fprintf(&sb, "property: %s\nobligation: %s\nunit: %s\nclause: %s\nsolver-result: %s\n", id, o.Name, o.Unit, o.Text, o.Result)
	fmt.Fprintf(&sb, "query-file: %s\n", o.File)
	model := parseModel(o.Output)
	if o.CexOutput != "" {
		model = parseModel(o.CexOutput)
		fmt.Fprintf(&sb, "candidate counterexample found in the integer-carrier interpretation (float64 read as the int64 it carries); the replay on the real code below decides\n")
	}
	if (o.Result == "sat" || o.CexOutput != "") && len(o.Inputs) > 0 {
		fmt.Fprintf(&sb, "counterexample (solver model of the unit's inputs):\n")
		for _, in := range o.Inputs {
			fmt.Fprintf(&sb, "  %s = %s\n", in.Name, model[in.Term])
		}
	}
	confirmed, testSrc, out := g.tryReplay(o, model)
	o.ReplayConfirmed = confirmed
	if testSrc != "" {
		fmt.Fprintf(&sb, "replay-status: %s\n", ifs(confirmed, "confirmed on real code", "model did not reproduce on real code"))
		fmt.Fprintf(&sb, "--- replay test (package goatlang, run with go test -overlay) ---\n%s\n--- replay output ---\n%s\n", testSrc, out)
	} else {
		fmt.Fprintf(&sb, "replay-status: no-failing-input-found (%s)\n", ifs(o.Result == "sat", "no executable rendering of this obligation", "solver gave no model"))
	}
	fmt.Fprintf(&sb, "--- solver output ---\n%s\n", truncate(o.Output, 20000))
	os.WriteFile(path, []byte(sb.String()), 0o644)
	return path
}

// parseModel parses the (get-value ...) answer: ((term value) ...)
func parseModel(out string) map[string]string {
	m := map[string]string{}
	i := strings.Index(out, "((")
	if i < 0 {
		return m
	}
	s := out[i+1:]
	// split top-level pairs
	depth := 0
	start := -1
	for k := 0; k < len(s); k++ {
		switch s[k] {
		case '(':
			if depth == 0 {
				start = k
			}
			depth++
		case ')':
			depth--
			if depth == 0 && start >= 0 {
				pair := s[start+1 : k]
				// first token (possibly parenthesised term) then value
				pair = strings.TrimSpace(pair)
				var key, val string
				if strings.HasPrefix(pair, "(") {
					d := 0
					for j := 0; j < len(pair); j++ {
						if pair[j] == '(' {
							d++
						} else if pair[j] == ')' {
							d--
							if d == 0 {
								key, val = pair[:j+1], strings.TrimSpace(pair[j+1:])
								break
							}
						}
					}
				} else {
					f := strings.SplitN(pair, " ", 2)
					if len(f) == 2 {
						key, val = f[0], strings.TrimSpace(f[1])
					}
				}
				if key != "" {
					m[key] = val
				}
				start = -1
			}
			if depth < 0 {
				return m
			}
		}
	}
	return m
}

func runReplay(path string) int {
	b, err := os.ReadFile(path)
	if err != nil {
		fmt.Fprintln(os.Stderr, err)
		return 2
	}
	s := string(b)
	i := strings.Index(s, "--- replay test")
	if i < 0 {
		fmt.Println(s)
		fmt.Println("replay: no executable test in this replay file (no-failing-input-found); the failed obligation and solver output are above")
		return 1
	}
	j := strings.Index(s[i:], "\n")
	k := strings.Index(s, "--- replay output ---")
	src := s[i+j+1 : k]
	out, failed := runOverlayTest(src, "TestGovcReplay")
	fmt.Println(out)
	if failed {
		fmt.Println("replay: violation reproduced on the real code")
		return 1
	}
	fmt.Println("replay: did not reproduce")
	return 0
}

package main

import (
	"fmt"
	"go/ast"
	"go/types"
	"strings"
)

// verifyClosure verifies the k-th function literal of a function against its closure block:
// parameters are symbolic, captured variables are symbolic constants (or heap boxes when they
// are assigned after capture), `captures` clauses (facts established at creation, checked in
// the enclosing function's unit) and `requires` clauses are assumed.
func (g *Gen) verifyClosure(b *Block) {
	fd := g.P.Funcs[b.Target]
	if fd == nil || fd.Body == nil {
		g.errorf("contract %s: no such function", b.ID())
		return
	}
	lits := closuresIn(fd.Body)
	if b.Closure >= len(lits) {
		g.errorf("contract %s: function has only %d closures", b.ID(), len(lits))
		return
	}
	lit := lits[b.Closure]
	u := g.newUnit(b.ID(), fd, b)
	u.sig = g.P.Info.Types[lit].Type.(*types.Signature)
	u.bodyPos = lit.Body.Lbrace + 1
	u.closureLit = lit
	g.Funcs[b.ID()] = true
	st := &State{vars: map[types.Object]Term{}, named: map[string]Term{}, heaps: map[string]Term{}, decls: &u.decls, boxed: map[types.Object]*Loc{}}
	for i := 0; i < u.sig.Params().Len(); i++ {
		p := u.sig.Params().At(i)
		t := u.freshParam(st, p)
		if _, ok := p.Type().Underlying().(*types.Pointer); ok {
			st.assume(app(">", t.S, "0"))
		}
	}
	// captured variables
	seen := map[*types.Var]bool{}
	ast.Inspect(lit.Body, func(n ast.Node) bool {
		id, ok := n.(*ast.Ident)
		if !ok {
			return true
		}
		v, ok := g.P.Info.Uses[id].(*types.Var)
		if !ok || v.IsField() || seen[v] {
			return true
		}
		if v.Pos() >= lit.Pos() && v.Pos() < lit.End() {
			return true
		}
		if v.Parent() == g.P.Pkg.Types.Scope() || v.Pkg() != g.P.Pkg.Types {
			return true
		}
		seen[v] = true
		e := u.newEv(st)
		if g.boxedVars()[v] {
			r := g.freshName("box$" + v.Name())
			st.declare(r, sInt)
			u.defs = append(u.defs, app(">", r, "0"), app("not", app("fresh$", r)))
			g.Pre.addFresh()
			loc := &Loc{Kind: "heap", Name: "B$" + sanitize(e.sortOf(v.Type())), Ref: r, T: v.Type()}
			if _, isStruct := v.Type().Underlying().(*types.Struct); isStruct {
				loc = &Loc{Kind: "heap", Name: e.heapName(v.Type()), Ref: r, T: v.Type()}
			}
			st.boxed[v] = loc
			return true
		}
		u.freshParam(st, v)
		if _, ok := v.Type().Underlying().(*types.Pointer); ok && hasFlag(b, "nonnilcaptures") {
			st.assume(app(">", st.vars[v].S, "0"))
		}
		return true
	})
	// variables of the enclosing function that are in scope at the literal but not used in its
	// body may still be mentioned by the contract: symbolic as well
	for id, obj := range g.P.Info.Defs {
		v, ok := obj.(*types.Var)
		if !ok || v.IsField() || seen[v] {
			continue
		}
		if id.Pos() < fd.Pos() || id.Pos() >= lit.Pos() {
			continue
		}
		if _, has := st.vars[v]; has {
			continue
		}
		seen[v] = true
		u.freshParam(st, v)
	}
	u.assumeWF(st)
	for _, c := range b.clauses("captures") {
		e := u.specEv(st, u.bodyPos)
		e.old = st
		st.assume(e.evSpec(c.Text).S)
	}
	u.entry = st.clone()
	u.runBody(st, lit.Body.List)
}

// checkCaptures: at the creation of a function literal, the `captures` facts of its closure block
// must hold (obligations of the enclosing unit).
func (e *Ev) checkCaptures(lit *ast.FuncLit) {
	if e.spec || e.u.fd == nil {
		return
	}
	key := funcKey(e.u.fd)
	for k, l := range closuresIn(e.u.fd.Body) {
		if l != lit {
			continue
		}
		b := e.g().C.byID[fmt.Sprintf("%s/closure%d", key, k)]
		if b == nil {
			return
		}
		for i, c := range b.clauses("captures") {
			se := e.u.specEv(e.st, lit.Body.Lbrace+1)
			se.old = e.st
			t := se.evSpec(c.Text)
			name := c.Name
			if name == "" {
				name = fmt.Sprint(i)
			}
			props := append([]string{}, clauseProps(b, c)...)
			for _, p := range e.u.props {
				if !hasProp(props, p) {
					props = append(props, p)
				}
			}
			e.u.addObl(fmt.Sprintf("%s/closure%d/captures#%s", e.u.contractID(), k, name), props, e.st, smtImp(e.guardCond(), t.S), "established at closure creation: "+c.Text, nil)
		}
	}
}

// checkCallsite: `callsite KEY: expr` clauses of the unit's block are obligations at each call of KEY.
func (e *Ev) checkCallsite(key string, n ast.Node, bind map[string]Term) {
	if e.spec || e.quiet {
		return
	}
	for _, b := range []*Block{e.u.block, e.u.caseBlock} {
		if b == nil {
			continue
		}
		for i, c := range b.clauses("callsite") {
			j := strings.Index(c.Text, ":")
			if j < 0 || strings.TrimSpace(c.Text[:j]) != key {
				continue
			}
			pos := e.u.bodyPos
			if n != nil && n.Pos().IsValid() {
				pos = n.Pos()
			}
			se := e.u.specEv(e.st, pos)
			for k, v := range bind {
				se.bound[k] = v
			}
			t := se.evSpec(c.Text[j+1:])
			name := c.Name
			if name == "" {
				name = fmt.Sprint(i)
			}
			e.u.addObl(fmt.Sprintf("%s/callsite:%s#%s@%s", e.u.contractID(), key, name, e.u.siteID(n)), clauseProps(b, c), e.st, smtImp(e.guardCond(), t.S), "at the call of "+key+": "+strings.TrimSpace(c.Text[j+1:]), nil)
		}
	}
}

package main

import (
	"fmt"
	"go/ast"
	"go/parser"
	"go/types"
	"strings"
)

// externalInfo describes how a function outside the package is modelled. Everything here is
// an ASSUMPTION about the dependency (reported in the evidence).
type externalInfo struct {
	mayPanic bool   // default: does not panic
	nilPanics []int // indexes of arguments whose being nil makes the call panic
	mutates  []int  // indexes of slice arguments whose elements may be rewritten
	rangePanic bool // (s, i, j): panics exactly when !(0 <= i <= j <= len(s))
	note     string // documented behaviour relied upon
}

var externals = map[string]externalInfo{
	"sort.SliceStable":               {mutates: []int{0}, note: "sort.SliceStable permutes its slice argument stably by less"},
	"golang.org/x/exp/slices.Sort":   {mutates: []int{0}, note: "slices.Sort sorts in place"},
	"sort.Strings":                   {mutates: []int{0}, note: "sort.Strings sorts in place"},
	"sort.Ints":                      {mutates: []int{0}, note: "sort.Ints sorts in place"},
	"sort.Float64s":                  {mutates: []int{0}, note: "sort.Float64s sorts in place"},
	"sort.Sort":                      {mayPanic: true, note: "sort.Sort calls back into the argument's methods"},
	"golang.org/x/exp/slices.Delete": {rangePanic: true, note: "slices.Delete(s, i, j) panics exactly when s[i:j] is not a valid slice of s"},
	"io/fs.Glob":                     {nilPanics: []int{0}, note: "fs.Glob calls a method of its FS argument: a nil FS is a nil-interface method call (panics)"},
	"io/fs.ReadFile":                 {nilPanics: []int{0}, note: "fs.ReadFile calls a method of its FS argument: a nil FS panics"},
	"io/fs.ReadDir":                  {nilPanics: []int{0}, note: "fs.ReadDir calls a method of its FS argument: a nil FS panics"},
}

func extKey(fn *types.Func) string {
	if fn.Pkg() == nil {
		return fn.Name()
	}
	sig := fn.Type().(*types.Signature)
	if sig.Recv() != nil {
		rt := sig.Recv().Type()
		if p, ok := rt.(*types.Pointer); ok {
			rt = p.Elem()
		}
		if n, ok := rt.(*types.Named); ok {
			return fn.Pkg().Path() + "." + n.Obj().Name() + "." + fn.Name()
		}
	}
	return fn.Pkg().Path() + "." + fn.Name()
}

// callExternal models a call into a dependency as a deterministic function of its arguments
// (slices contribute their contents), without panics unless listed.
func (g *Gen) callExternal(e *Ev, fn *types.Func, recv *Term, args []Term, n *ast.CallExpr) Term {
	key := extKey(fn)
	info := externals[key]
	g.Assumed["external "+key+": deterministic function of its arguments, "+ifs(info.mayPanic, "may panic", "does not panic")+ifs(info.note != "", "; "+info.note, "")] = true
	sig := fn.Type().(*types.Signature)
	if e.instSig != nil {
		sig = e.instSig
	}
	var sorts, as []string
	addArg := func(a Term) {
		if a.UConst != nil {
			a = e.coerce(a, sInt, true, nil)
		}
		if a.Sort == sSlice && a.T != nil {
			if st, ok := a.T.Underlying().(*types.Slice); ok {
				es := e.sortOf(st.Elem())
				h := e.elemHeap(es)
				sorts = append(sorts, fmt.Sprintf("(Array Int %s)", es), sInt, sInt)
				as = append(as, app("select", h, app("sarr", a.S)), app("soff", a.S), app("slen", a.S))
				return
			}
		}
		if a.Sort == "nil" || a.Sort == "" || a.Sort == "void" || a.Sort == "tuple" {
			sorts = append(sorts, sInt)
			as = append(as, "0")
			return
		}
		sorts = append(sorts, a.Sort)
		as = append(as, a.S)
	}
	if recv != nil {
		addArg(*recv)
	}
	for _, a := range args {
		addArg(a)
	}
	if info.mayPanic && !e.spec && !e.quiet {
		pn := "extpanic$" + sanitize(key)
		g.Pre.add(fmt.Sprintf("(declare-fun %s (%s) Bool)", pn, strings.Join(sorts, " ")))
		e.panicIf(app(pn, as...), "external "+key+" may panic", n)
	}
	if info.rangePanic && !e.spec && !e.quiet && len(args) == 3 && args[0].Sort == sSlice {
		i := e.coerce(args[1], sInt, true, nil).S
		j := e.coerce(args[2], sInt, true, nil).S
		ok := smtAnd(app("<=", "0", i), app("<=", i, j), app("<=", j, app("slen", args[0].S)))
		e.panicIf(smtNot(ok), "external "+key+" range out of bounds", n)
	}
	for _, i := range info.mutates {
		if i < len(args) && args[i].Sort == sSlice {
			if st, ok := args[i].T.Underlying().(*types.Slice); ok {
				es := e.sortOf(st.Elem())
				hname := "A$" + sanitize(es)
				h := e.elemHeap(es)
				nh := g.freshName(hname)
				hs := fmt.Sprintf("(Array Int (Array Int %s))", es)
				e.st.declare(nh, hs)
				e.define(fmt.Sprintf("(forall ((a Int)) (! (=> (not (= a (sarr %s))) (= (select %s a) (select %s a))) :pattern ((select %s a))))", args[i].S, nh, h, nh))
				e.st.heaps[hname] = Term{S: nh, Sort: hs}
				e.u.noteWrite(hname)
			}
		}
	}
	// caller-specific call-site assertions on externals: arg_0, arg_1, ... (receiver first)
	{
		bind := map[string]Term{}
		k := 0
		if recv != nil {
			bind["arg_0"] = *recv
			k = 1
		}
		for i, a := range args {
			bind[fmt.Sprintf("arg_%d", i+k)] = a
		}
		e.checkCallsite(key, n, bind)
	}
	for _, i := range info.nilPanics {
		if i < len(args) && !e.spec && !e.quiet {
			a := args[i]
			var isNil string
			switch a.Sort {
			case "nil":
				isNil = "true"
			case sObj:
				isNil = smtEq(a.S, "(mkObj 0 0 str_empty)")
			case sInt:
				isNil = smtEq(a.S, "0")
			default:
				continue
			}
			e.panicIf(isNil, "external "+key+" panics on a nil argument", n)
			g.Assumed["external "+key+": "+info.note] = true
		}
	}
	var results []Term
	for i := 0; i < sig.Results().Len(); i++ {
		rt := sig.Results().At(i).Type()
		rs := e.sortOf(rt)
		fname := fmt.Sprintf("ext$%s$%d", sanitize(key), i)
		g.Pre.add(fmt.Sprintf("(declare-fun %s (%s) %s)", fname, strings.Join(sorts, " "), rs))
		s := fname
		if len(as) > 0 {
			s = app(fname, as...)
		}
		if rs == sSlice {
			// a returned slice is a deterministic function of the arguments, with a well-formed header
			e.st.assume(fmt.Sprintf("(and (<= 0 (soff %s)) (<= 0 (slen %s)) (<= (slen %s) (scap %s)))", s, s, s, s))
		}
		results = append(results, Term{S: s, Sort: rs, T: rt, Signed: isSigned(rt)})
	}
	// assumed contract of the dependency (`extern KEY(params)` block): a sentence of its documentation
	for _, blk := range g.C.Blocks {
		if blk.Kind != "extern" || !strings.HasPrefix(blk.Target, key+"(") {
			continue
		}
		hdr := blk.Target
		i := strings.Index(hdr, "(")
		j := strings.LastIndex(hdr, ")")
		var pnames []string
		for _, p := range strings.Split(hdr[i+1:j], ",") {
			f := strings.Fields(p)
			if len(f) > 0 {
				pnames = append(pnames, f[0])
			}
		}
		all := args
		if recv != nil {
			all = append([]Term{*recv}, args...)
		}
		if sig.Variadic() && len(pnames) == sig.Params().Len()+len(all)-len(args) && len(all) >= len(pnames)-1 {
			// variadic external: the block names the fixed parameters (and the variadic one, which
			// stays unbound because the actual arguments are not packed)
			pnames = pnames[:len(pnames)-1]
			all = all[:len(pnames)]
		}
		if len(pnames) != len(all) {
			e.errorf(n, "extern %s: %d names for %d arguments", hdr, len(pnames), len(all))
			break
		}
		// several extern blocks may describe instances of one generic function: match by types
		mismatch := false
		for k, p := range strings.Split(hdr[i+1:j], ",") {
			f := strings.Fields(p)
			if k >= len(all) || len(f) < 2 || all[k].T == nil {
				continue
			}
			tx, err := parser.ParseExpr(strings.Join(f[1:], " "))
			if err != nil {
				continue
			}
			te := &Ev{u: e.u, st: e.st, spec: true, pos: e.u.bodyPos, bound: map[string]Term{}}
			if dt := te.evType(tx); dt != nil && !types.Identical(dt, all[k].T) && !types.Identical(dt.Underlying(), all[k].T.Underlying()) {
				mismatch = true
			}
		}
		if mismatch {
			continue
		}
		ce := &Ev{u: e.u, st: e.st, old: e.st, spec: true, pos: e.pos, bv: e.bv, bound: map[string]Term{}, quiet: true, qvars: e.qvars}
		if !ce.pos.IsValid() {
			ce.pos = e.u.bodyPos
		}
		for k, pn := range pnames {
			ce.bound[pn] = all[k]
		}
		ce.results = results
		for _, c := range blk.clauses("ensures") {
			if !assumableAtCallSite(c) {
				continue
			}
			t := ce.evSpec(c.Text)
			e.assumeQ(smtImp(e.guardCond(), t.S))
			g.Assumed["assumed contract of "+key+": "+c.Text] = true
		}
	}
	switch len(results) {
	case 0:
		return Term{Sort: "void"}
	case 1:
		return results[0]
	}
	return Term{Sort: "tuple", Tuple: results}
}

// funcValueKey names the function-type contract for a call through a function value.
func (e *Ev) funcValueKey(n *ast.CallExpr) string {
	fun := n.Fun
	if p, ok := fun.(*ast.ParenExpr); ok {
		fun = p.X
	}
	switch f := fun.(type) {
	case *ast.SelectorExpr:
		if !e.spec {
			if s := e.g().P.Info.Selections[f]; s != nil {
				rt := s.Recv()
				if p, ok := rt.Underlying().(*types.Pointer); ok {
					rt = p.Elem()
				}
				return e.g().namedName(rt) + "." + f.Sel.Name
			}
		}
		return "?." + f.Sel.Name
	case *ast.Ident:
		base := e.u.name
		if e.u.fd != nil {
			base = funcKey(e.u.fd)
		}
		return base + "." + f.Name
	}
	return "?"
}

// callFuncValue: call through a function value, by function-type contract if one is declared
// (`functype KEY(self T, params...)`), otherwise conservative (may panic, may modify every heap).
func (g *Gen) callFuncValue(e *Ev, fv Term, sig *types.Signature, args []Term, n *ast.CallExpr) Term {
	key := e.funcValueKey(n)
	var b *Block
	for _, blk := range g.C.Blocks {
		if blk.Kind == "functype" && strings.HasPrefix(blk.Target, key+"(") {
			b = blk
		}
	}
	if b == nil {
		if fv.Clo != nil {
			return e.errorf(n, "call of local closure unsupported (%s)", key)
		}
		if !e.spec && !e.quiet {
			pv := g.freshName("panics$fv")
			e.st.declare(pv, sBool)
			e.panicIf(pv, "function value "+key+" may panic", n)
		}
		e.havocHeap("*")
		g.Notes = append(g.Notes, fmt.Sprintf("%s: call through %s without functype contract: havoc", e.u.name, key))
		return e.freshResults(sig, key)
	}
	// parameter names from the header
	hdr := b.Target
	i := strings.Index(hdr, "(")
	j := strings.LastIndex(hdr, ")")
	var pnames []string
	for _, p := range strings.Split(hdr[i+1:j], ",") {
		f := strings.Fields(p)
		if len(f) > 0 {
			pnames = append(pnames, f[0])
		}
	}
	actuals := []Term{}
	// self = the object holding the function value (receiver of the selector), if any
	if sel, ok := n.Fun.(*ast.SelectorExpr); ok && !e.spec {
		actuals = append(actuals, e.ev(sel.X))
	} else {
		actuals = append(actuals, fv)
	}
	actuals = append(actuals, args...)
	{
		bind := map[string]Term{}
		for k := range pnames {
			if k < len(actuals) {
				bind["arg_"+pnames[k]] = actuals[k]
			}
		}
		e.checkCallsite(key, n, bind)
	}
	if len(actuals) < len(pnames) && len(actuals) >= 1 {
		// a functype block may serve function values of several arities: the names beyond the
		// actual arguments stay unbound
		pnames = pnames[:len(actuals)]
	}
	if len(pnames) != len(actuals) {
		return e.errorf(n, "functype %s: %d names for %d actuals", hdr, len(pnames), len(actuals))
	}
	pre := e.st.clone()
	mk := func(st, old *State) *Ev {
		ce := &Ev{u: e.u, st: st, old: old, spec: true, pos: e.u.bodyPos, bv: e.bv, bound: map[string]Term{}, guard: append([]string(nil), e.guard...), quiet: true}
		for k, p := range pnames {
			ce.bound[p] = actuals[k]
		}
		return ce
	}
	if !e.spec && !e.quiet {
		for k, c := range b.clauses("requires") {
			t := mk(pre, pre).evSpec(c.Text)
			name := c.Name
			if name == "" {
				name = fmt.Sprint(k)
			}
			e.u.addObl(fmt.Sprintf("%s/call:%s/requires#%s@%s", e.u.contractID(), key, name, e.u.siteID(n)), e.u.props, e.st, smtImp(e.guardCond(), t.S), "call-site precondition of functype "+key+": "+c.Text, nil)
		}
	}
	if cs := b.clauses("panics_iff"); len(cs) > 0 {
		t := mk(pre, pre).evSpec(cs[0].Text)
		e.panicIf(t.S, "function value "+key+" panics", n)
	} else if !hasFlag(b, "nopanic") && !e.spec && !e.quiet {
		pv := g.freshName("panics$fv")
		e.st.declare(pv, sBool)
		var modItems []string
		for _, c := range b.clauses("modifies") {
			modItems = append(modItems, strings.Fields(c.Text)...)
		}
		e.calleePanic(pv, "function value "+key+" may panic", n, modItems, mk(pre, pre))
	}
	for _, c := range b.clauses("modifies") {
		for _, h := range strings.Fields(c.Text) {
			e.havocHeap(h)
		}
	}
	res := e.freshResults(sig, key)
	var results []Term
	if res.Sort == "tuple" {
		results = res.Tuple
	} else if res.Sort != "void" {
		results = []Term{res}
	}
	for _, c := range b.clauses("ensures") {
		if !assumableAtCallSite(c) {
			continue
		}
		ce := mk(e.st, pre)
		ce.results = results
		t := ce.evSpec(c.Text)
		e.st.assume(smtImp(e.guardCond(), t.S))
	}
	return res
}

// callInterface: dynamic dispatch through an interface method. With a `functype Iface.Method(self, ...)`
// block the call is by that contract; otherwise it is a case split over the implementers that
// have contracts, and conservative for the rest.
func (g *Gen) callInterface(e *Ev, fn *types.Func, recv Term, args []Term, n *ast.CallExpr) Term {
	sig := fn.Type().(*types.Signature)
	iface := sig.Recv().Type()
	iname := g.namedName(iface)
	// nil interface: method call panics
	e.panicIf(smtEq(recv.S, "(mkObj 0 0 str_empty)"), "nil interface method call", n)
	type arm struct {
		tag  int
		fn   *types.Func
		recv Term
	}
	var arms []arm
	for _, ct := range g.concreteTypes() {
		if !types.Implements(ct, iface.Underlying().(*types.Interface)) {
			continue
		}
		obj, _, _ := types.LookupFieldOrMethod(ct, false, g.P.Pkg.Types, fn.Name())
		m, ok := obj.(*types.Func)
		if !ok {
			continue
		}
		if g.C.forFunc(funcKeyOf(m)) == nil {
			continue
		}
		// method promoted from an embedded (nil) interface is not a real implementation
		msig := m.Type().(*types.Signature)
		if _, isIface := msig.Recv().Type().Underlying().(*types.Interface); isIface {
			continue
		}
		tag := g.Pre.tagOf(types.TypeString(ct, func(p *types.Package) string { return "" }))
		rv, _ := e.assertTo(recv, ct, n)
		arms = append(arms, arm{tag: tag, fn: m, recv: rv})
	}
	if len(arms) == 0 && fn.Pkg() != nil && fn.Pkg() != g.P.Pkg.Types {
		// a method of an interface declared by a dependency, with no implementer in this package:
		// treated like any other external (assumed not to panic; result unconstrained)
		g.Assumed["dynamic call of the dependency's interface method "+fn.Pkg().Path()+"."+iname+"."+fn.Name()+" is assumed not to panic and to leave this package's objects alone"] = true
		return e.freshResults(sig, fn.Name())
	}
	if len(arms) == 0 {
		if !e.spec && !e.quiet {
			pv := g.freshName("panics$dyn")
			e.st.declare(pv, sBool)
			e.panicIf(pv, "dynamic call "+iname+"."+fn.Name()+" may panic", n)
		}
		e.havocHeap("*")
		g.Notes = append(g.Notes, fmt.Sprintf("%s: dynamic call %s.%s without contracts: havoc", e.u.name, iname, fn.Name()))
		return e.freshResults(sig, fn.Name())
	}
	return e.dispatch(fn, sig, recv, args, n, func(k int) (int, *types.Func, Term) { return arms[k].tag, arms[k].fn, arms[k].recv }, len(arms))
}

// hasContractedImplementer: does a concrete type of this package implement iface with a method
// `name` that has a contract (the arms callInterface would dispatch over)?
func (g *Gen) hasContractedImplementer(iface *types.Interface, name string) bool {
	for _, ct := range g.concreteTypes() {
		if !types.Implements(ct, iface) {
			continue
		}
		obj, _, _ := types.LookupFieldOrMethod(ct, false, g.P.Pkg.Types, name)
		m, ok := obj.(*types.Func)
		if !ok || g.C.forFunc(funcKeyOf(m)) == nil {
			continue
		}
		if _, isIface := m.Type().(*types.Signature).Recv().Type().Underlying().(*types.Interface); isIface {
			continue
		}
		return true
	}
	return false
}

// dispatch merges the per-implementer calls: each arm is evaluated under the guard "tag == arm".
func (e *Ev) dispatch(fn *types.Func, sig *types.Signature, recv Term, args []Term, n *ast.CallExpr, arm func(int) (int, *types.Func, Term), k int) Term {
	g := e.g()
	// heaps before
	before := map[string]Term{}
	for h, t := range e.st.heaps {
		before[h] = t
	}
	type out struct {
		guard string
		res   []Term
		heaps map[string]Term
	}
	var outs []out
	var guards []string
	for i := 0; i < k; i++ {
		tag, m, rv := arm(i)
		gd := smtEq(app("otag", recv.S), fmt.Sprint(tag))
		guards = append(guards, gd)
		// evaluate the arm on the pre-call heaps
		for h := range e.st.heaps {
			if b, ok := before[h]; ok {
				e.st.heaps[h] = b
			}
		}
		e.guard = append(e.guard, gd)
		msig := m.Type().(*types.Signature)
		r := rv
		if _, wantPtr := msig.Recv().Type().Underlying().(*types.Pointer); !wantPtr {
			if _, havePtr := rv.T.Underlying().(*types.Pointer); havePtr {
				r = e.load(e.derefLoc(rv, n), n)
			}
		}
		t := e.callStatic(m, &r, args, n)
		e.guard = e.guard[:len(e.guard)-1]
		var res []Term
		if t.Sort == "tuple" {
			res = t.Tuple
		} else if t.Sort != "void" {
			res = []Term{t}
		}
		hs := map[string]Term{}
		for h, v := range e.st.heaps {
			hs[h] = v
		}
		outs = append(outs, out{guard: gd, res: res, heaps: hs})
	}
	// other dynamic types: unconstrained result, may panic, heaps havoced
	other := smtNot(smtOr(guards...))
	if !e.spec && !e.quiet {
		pv := g.freshName("panics$dyn")
		e.st.declare(pv, sBool)
		e.panicIf(smtAnd(other, pv), "dynamic call on other implementer may panic", n)
	}
	// merge heaps
	names := map[string]bool{}
	for _, o := range outs {
		for h := range o.heaps {
			names[h] = true
		}
	}
	for h := range names {
		base, ok := before[h]
		changed := false
		for _, o := range outs {
			if v, ok2 := o.heaps[h]; ok2 && (!ok || v.S != base.S) {
				changed = true
			}
		}
		if !changed {
			if ok {
				e.st.heaps[h] = base
			}
			continue
		}
		sort := ""
		for _, o := range outs {
			if v, ok2 := o.heaps[h]; ok2 {
				sort = v.Sort
			}
		}
		nm := g.freshName(h)
		e.st.declare(nm, sort)
		for _, o := range outs {
			v, ok2 := o.heaps[h]
			if !ok2 {
				v = base
			}
			if v.S != "" {
				e.st.assume(smtImp(smtAnd(e.guardCond(), o.guard), smtEq(nm, v.S)))
			}
		}
		e.st.heaps[h] = Term{S: nm, Sort: sort}
	}
	// merge results
	nres := sig.Results().Len()
	var results []Term
	for i := 0; i < nres; i++ {
		rt := sig.Results().At(i).Type()
		rs := e.sortOf(rt)
		nm := g.freshName("dyn$" + fn.Name())
		e.st.declare(nm, rs)
		for _, o := range outs {
			if i < len(o.res) {
				e.st.assume(smtImp(smtAnd(e.guardCond(), o.guard), smtEq(nm, o.res[i].S)))
			}
		}
		results = append(results, Term{S: nm, Sort: rs, T: rt, Signed: isSigned(rt)})
	}
	switch len(results) {
	case 0:
		return Term{Sort: "void"}
	case 1:
		return results[0]
	}
	return Term{Sort: "tuple", Tuple: results}
}

package main

import (
	"encoding/json"
	"fmt"
	"go/types"
	"os"
	"os/exec"
	"path/filepath"
	"strconv"
	"strings"
)

type ReplaySpec struct{}

// runOverlayTest runs an in-package test against the repository without writing into it.
func runOverlayTest(src, testName string) (string, bool) {
	dir, err := os.MkdirTemp("", "govc-replay")
	if err != nil {
		return err.Error(), false
	}
	defer os.RemoveAll(dir)
	tf := filepath.Join(dir, "zz_govc_replay_test.go")
	os.WriteFile(tf, []byte(src), 0o644)
	ov := map[string]any{"Replace": map[string]string{filepath.Join(repoDir(), "zz_govc_replay_test.go"): tf}}
	ob, _ := json.Marshal(ov)
	of := filepath.Join(dir, "ov.json")
	os.WriteFile(of, ob, 0o644)
	cmd := exec.Command("go", "test", "-overlay", of, "-vet=off", "-count=1", "-timeout", "60s", "-run", "^"+testName+"$", ".")
	cmd.Dir = repoDir()
	cmd.Env = append(os.Environ(), "GOFLAGS=-mod=mod", "GOPROXY=off", "GOSUMDB=off", "GOTOOLCHAIN=local")
	out, err := cmd.CombinedOutput()
	s := string(out)
	failed := err != nil && strings.Contains(s, "GOVC-VIOLATED")
	return s, failed
}

func bvModelValue(s string) (uint64, bool) {
	s = strings.TrimSpace(s)
	if v, ok := bvLiteralValue(s); ok {
		return v, true
	}
	if strings.HasPrefix(s, "(_ bv") {
		f := strings.Fields(s[5:])
		v, err := strconv.ParseUint(f[0], 10, 64)
		return v, err == nil
	}
	return 0, false
}

// specToGo renders a contract clause as a Go boolean expression, if it is in the executable fragment.
func (g *Gen) specToGo(s string, helpers map[string]string) (string, bool) {
	s = strings.TrimSpace(s)
	if strings.Contains(s, "forall ") || strings.Contains(s, "exists ") {
		return "", false
	}
	if parts := splitTop(s, "<==>"); len(parts) > 1 {
		a, ok1 := g.specToGo(parts[0], helpers)
		b, ok2 := g.specToGo(strings.Join(parts[1:], "<==>"), helpers)
		return "((" + a + ") == (" + b + "))", ok1 && ok2
	}
	if parts := splitTop(s, "==>"); len(parts) > 1 {
		a, ok1 := g.specToGo(parts[0], helpers)
		b, ok2 := g.specToGo(strings.Join(parts[1:], "==>"), helpers)
		return "(!(" + a + ") || (" + b + "))", ok1 && ok2
	}
	if parts := splitTop(s, "||"); len(parts) > 1 {
		var out []string
		for _, p := range parts {
			x, ok := g.specToGo(p, helpers)
			if !ok {
				return "", false
			}
			out = append(out, "("+x+")")
		}
		return strings.Join(out, " || "), true
	}
	if parts := splitTop(s, "&&"); len(parts) > 1 {
		var out []string
		for _, p := range parts {
			x, ok := g.specToGo(p, helpers)
			if !ok {
				return "", false
			}
			out = append(out, "("+x+")")
		}
		return strings.Join(out, " && "), true
	}
	if in, ok := stripParens(s); ok && strings.Contains(s, "==>") {
		x, ok2 := g.specToGo(in, helpers)
		return "(" + x + ")", ok2
	}
	if strings.Contains(s, "==>") {
		return "", false
	}
	// spec functions -> helper functions
	out := s
	for name, b := range g.C.Specs {
		if !strings.Contains(out, name+"(") {
			continue
		}
		if _, done := helpers[name]; !done {
			defs := b.clauses("def")
			if len(defs) != 1 {
				return "", false
			}
			helpers[name] = "" // break recursion
			body, ok := g.specToGo(defs[0].Text, helpers)
			if !ok {
				return "", false
			}
			hdr := b.Target
			helpers[name] = "func spec_" + hdr + " { return " + body + " }"
		}
		out = replaceIdentCall(out, name, "spec_"+name)
	}
	out = replaceIdentCall(out, "same", "spec_same")
	out = replaceIdentCall(out, "old", "")
	if strings.Contains(out, "ite(") || strings.Contains(out, "is(") || strings.Contains(out, "as(") || strings.Contains(out, "mathint(") || strings.Contains(out, "inrange(") {
		return "", false
	}
	return out, true
}

// replaceIdentCall renames calls name( -> repl( when name is a whole identifier not preceded by '.'.
func replaceIdentCall(s, name, repl string) string {
	var sb strings.Builder
	i := 0
	for i < len(s) {
		j := strings.Index(s[i:], name+"(")
		if j < 0 {
			sb.WriteString(s[i:])
			break
		}
		j += i
		prevOK := j == 0 || !(isIdentChar(s[j-1]) || s[j-1] == '.')
		if prevOK {
			sb.WriteString(s[i:j])
			sb.WriteString(repl)
			i = j + len(name)
		} else {
			sb.WriteString(s[i : j+len(name)])
			i = j + len(name)
		}
	}
	return sb.String()
}

func isIdentChar(c byte) bool {
	return c == '_' || c >= 'a' && c <= 'z' || c >= 'A' && c <= 'Z' || c >= '0' && c <= '9'
}

// goValueOf renders a model value of a unit input as a Go expression (nil if unsupported).
func (g *Gen) goInput(u *Unit, v *types.Var, model map[string]string, extra map[string]string) (string, bool) {
	t := u.entry.vars[v]
	switch {
	case g.namedName(v.Type()) == "Value":
		tv, ok := bvModelValue(extra["t:"+v.Name()])
		if !ok {
			return "", false
		}
		get := func(k string) (uint64, bool) { return bvModelValue(extra[k+":"+v.Name()]) }
		switch tv {
		case 0b00010011:
			x, ok := get("s8")
			return fmt.Sprintf("Int8(%d)", int8(x)), ok
		case 0b00000011:
			x, ok := get("u8")
			return fmt.Sprintf("Uint8(%d)", uint8(x)), ok
		case 0b00010111:
			x, ok := get("s32")
			return fmt.Sprintf("Int32(%d)", int32(x)), ok
		case 0b00000111:
			x, ok := get("u32")
			return fmt.Sprintf("Uint32(%d)", uint32(x)), ok
		case 0b00000001:
			x, ok := get("s64")
			return fmt.Sprintf("newUntypedInt(%d)", int64(x)), ok
		case 0b00011111:
			if x, ok := bvModelValue(extra["num:"+v.Name()]); ok {
				return fmt.Sprintf("Float64(float64(int64(%d)))", int64(x)), true
			}
			bits, ok := fpModelBits(extra["num:"+v.Name()])
			return fmt.Sprintf("Float64(math.Float64frombits(0x%x))", bits), ok
		case 0b00100000:
			if x, ok := bvModelValue(extra["num:"+v.Name()]); ok {
				return fmt.Sprintf("Bool(%v)", x != 0), true
			}
			bits, ok := fpModelBits(extra["num:"+v.Name()])
			return fmt.Sprintf("Bool(%v)", bits<<1 != 0), ok
		case 0:
			return "Nil()", true
		}
		return "", false
	case t.Sort == sBool:
		return model[t.S], model[t.S] == "true" || model[t.S] == "false"
	case isBV(t.Sort):
		x, ok := bvModelValue(model[t.S])
		if !ok {
			return "", false
		}
		tn := types.TypeString(v.Type(), func(p *types.Package) string { return "" })
		if isSigned(v.Type()) {
			w := bvWidth(t.Sort)
			sx := int64(x)
			if w < 64 && x >= 1<<uint(w-1) {
				sx = int64(x) - (1 << uint(w))
			}
			return fmt.Sprintf("%s(%d)", tn, sx), true
		}
		return fmt.Sprintf("%s(%d)", tn, x), true
	case t.Sort == sInt:
		if lit, ok := intLiteral(model[t.S]); ok {
			return fmt.Sprintf("%s(%s)", types.TypeString(v.Type(), func(p *types.Package) string { return "" }), lit.String()), true
		}
	case t.Sort == sF64:
		bits, ok := fpModelBits(model[t.S])
		return fmt.Sprintf("math.Float64frombits(0x%x)", bits), ok
	}
	return "", false
}

func fpModelBits(s string) (uint64, bool) {
	s = strings.TrimSpace(s)
	switch {
	case strings.HasPrefix(s, "(fp "):
		f := strings.Fields(strings.Trim(s, "()"))
		if len(f) != 4 {
			return 0, false
		}
		sg, ok1 := bvLiteralValue(f[1])
		ex, ok2 := bvLiteralValue(f[2])
		mn, ok3 := bvLiteralValue(f[3])
		return sg<<63 | ex<<52 | mn, ok1 && ok2 && ok3
	case strings.HasPrefix(s, "(_ +zero"):
		return 0, true
	case strings.HasPrefix(s, "(_ -zero"):
		return 1 << 63, true
	case strings.HasPrefix(s, "(_ +oo"):
		return 0x7ff0000000000000, true
	case strings.HasPrefix(s, "(_ -oo"):
		return 0xfff0000000000000, true
	case strings.HasPrefix(s, "(_ NaN"):
		return 0x7ff8000000000001, true
	}
	return 0, false
}

// replayInputs lists the extra model terms needed to rebuild Value-typed inputs.
func (g *Gen) replayInputs(u *Unit) []ModelVar {
	var out []ModelVar
	if u.sig == nil || u.entry == nil {
		return nil
	}
	add := func(v *types.Var) {
		t, ok := u.entry.vars[v]
		if !ok {
			return
		}
		if g.namedName(v.Type()) == "Value" {
			num := app("Value$num", t.S)
			out = append(out, ModelVar{"t:" + v.Name(), app("Value$t", t.S)}, ModelVar{"num:" + v.Name(), num})
			for _, c := range []string{"s8", "u8", "s32", "u32", "s64"} {
				out = append(out, ModelVar{c + ":" + v.Name(), app("fromF_"+c, num)})
			}
		}
	}
	if u.sig.Recv() != nil {
		add(u.sig.Recv())
	}
	for i := 0; i < u.sig.Params().Len(); i++ {
		add(u.sig.Params().At(i))
	}
	return out
}

// tryReplay builds and runs a concrete test from the counter-model of a failed obligation.
func (g *Gen) tryReplay(o *Obligation, model map[string]string) (confirmed bool, src string, out string) {
	if (o.Result != "sat" && o.CexOutput == "") || o.unit == nil || o.unit.sig == nil || o.unit.fd == nil || o.unit.caseBody != nil {
		return false, "", ""
	}
	u := o.unit
	extra := map[string]string{}
	for _, in := range o.Inputs {
		extra[in.Name] = model[in.Term]
	}
	var decls []string
	var argNames []string
	recvName := ""
	mkInput := func(v *types.Var) bool {
		ex, ok := g.goInput(u, v, model, extra)
		if !ok {
			return false
		}
		decls = append(decls, fmt.Sprintf("\t%s := %s\n\t_ = %s", v.Name(), ex, v.Name()))
		return true
	}
	if u.sig.Recv() != nil {
		if !mkInput(u.sig.Recv()) {
			return false, "", ""
		}
		recvName = u.sig.Recv().Name()
	}
	for i := 0; i < u.sig.Params().Len(); i++ {
		p := u.sig.Params().At(i)
		if !mkInput(p) {
			return false, "", ""
		}
		argNames = append(argNames, p.Name())
	}
	helpers := map[string]string{}
	call := u.fd.Name.Name + "(" + strings.Join(argNames, ", ") + ")"
	if recvName != "" {
		call = recvName + "." + call
	}
	var resNames []string
	for i := 0; i < u.sig.Results().Len(); i++ {
		n := u.sig.Results().At(i).Name()
		if n == "" || n == "_" {
			n = "result"
			if u.sig.Results().Len() > 1 {
				n = fmt.Sprintf("result%d", i)
			}
		}
		resNames = append(resNames, n)
	}
	var body strings.Builder
	isPanicObl := strings.Contains(o.Name, "/nopanic:") || strings.Contains(o.Name, "/panics_only_if:") || strings.HasSuffix(o.Name, "/panics_if")
	if isPanicObl {
		cond := "false"
		if iff := u.block.clauses("panics_iff"); len(iff) > 0 {
			c, ok := g.specToGo(iff[0].Text, helpers)
			if !ok {
				return false, "", ""
			}
			cond = c
		}
		fmt.Fprintf(&body, "\texpectPanic := %s\n\tpanicked := true\n\tdefer func() {\n\t\tr := recover()\n\t\tif panicked != expectPanic {\n\t\t\tt.Fatalf(\"GOVC-VIOLATED %s: panicked=%%v (%%v) but contract says panics=%%v\", panicked, r, expectPanic)\n\t\t}\n\t}()\n", cond, o.Name)
		if len(resNames) > 0 {
			fmt.Fprintf(&body, "\t%s := %s\n", strings.Join(blankNames(len(resNames)), ", "), call)
			body.Reset()
			fmt.Fprintf(&body, "\texpectPanic := %s\n\tpanicked := true\n\tdefer func() {\n\t\tr := recover()\n\t\tif panicked != expectPanic {\n\t\t\tt.Fatalf(\"GOVC-VIOLATED %s: panicked=%%v (%%v) but contract says panics=%%v\", panicked, r, expectPanic)\n\t\t}\n\t}()\n\t%s\n", cond, o.Name, call)
		} else {
			fmt.Fprintf(&body, "\t%s\n", call)
		}
		fmt.Fprintf(&body, "\tpanicked = false\n")
	} else {
		clause, ok := g.specToGo(o.Text, helpers)
		if !ok {
			return false, "", ""
		}
		// preconditions must hold for the model to be a legitimate input
		for _, rc := range u.block.clauses("requires") {
			rq, ok := g.specToGo(rc.Text, helpers)
			if !ok {
				return false, "", ""
			}
			fmt.Fprintf(&body, "\tif !(%s) {\n\t\tt.Skip(\"model violates precondition (solver abstraction): %s\")\n\t}\n", rq, strings.ReplaceAll(rc.Text, "\"", "'"))
		}
		if len(resNames) > 0 {
			fmt.Fprintf(&body, "\t%s := %s\n", strings.Join(resNames, ", "), call)
			for _, rn := range resNames {
				fmt.Fprintf(&body, "\t_ = %s\n", rn)
			}
		} else {
			fmt.Fprintf(&body, "\t%s\n", call)
		}
		fmt.Fprintf(&body, "\tif !(%s) {\n\t\tt.Fatalf(\"GOVC-VIOLATED %s: clause %%q is false for these inputs; result=%%v\", %q, %s)\n\t}\n", clause, o.Name, o.Text, ifs(len(resNames) > 0, "fmt.Sprint("+strings.Join(resNames, ", ")+")", "\"\""))
	}
	var sb strings.Builder
	sb.WriteString("package goatlang\n\nimport (\n\t\"fmt\"\n\t\"math\"\n\t\"testing\"\n)\n\nvar _ = fmt.Sprint\nvar _ = math.Pi\n\n")
	sb.WriteString("func spec_same(a, b any) bool {\n\tif x, ok := a.(float64); ok {\n\t\ty, _ := b.(float64)\n\t\treturn math.Float64bits(x) == math.Float64bits(y) || (x != x && y != y)\n\t}\n\treturn a == b\n}\n\n")
	for _, k := range sortedKeys(helpers) {
		sb.WriteString(helpers[k] + "\n\n")
	}
	sb.WriteString("func TestGovcReplay(t *testing.T) {\n")
	for _, d := range decls {
		sb.WriteString(d + "\n")
	}
	sb.WriteString(body.String())
	sb.WriteString("}\n")
	src = sb.String()
	out, confirmed = runOverlayTest(src, "TestGovcReplay")
	return confirmed, src, out
}

func blankNames(n int) []string {
	var out []string
	for i := 0; i < n; i++ {
		out = append(out, "_")
	}
	return out
}

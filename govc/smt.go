package main

import (
	"fmt"
	"go/types"
	"sort"
	"strings"
)

// Sort names (SMT-LIB text)
const (
	sBool  = "Bool"
	sInt   = "Int"
	sF64   = "F64"
	sStr   = "Str"
	sSlice = "Slice"
	sObj   = "Obj"
	sBV64  = "(_ BitVec 64)"
	sBV32  = "(_ BitVec 32)"
	sBV8   = "(_ BitVec 8)"
	sBV16  = "(_ BitVec 16)"
)

func bvSort(n int) string { return fmt.Sprintf("(_ BitVec %d)", n) }
func isBV(s string) bool  { return strings.HasPrefix(s, "(_ BitVec ") }
func bvWidth(s string) int {
	var n int
	fmt.Sscanf(s, "(_ BitVec %d)", &n)
	return n
}

// Term is an SMT term with its sort and (when known) its Go type.
type Term struct {
	S      string
	Sort   string
	T      types.Type
	Signed bool // for bit-vectors: Go signedness
	Loc    *Loc // set for pointers that denote a location rather than a heap ref
	// untyped constant (integer) not yet given a sort
	UConst *string // decimal text (possibly negative)
	// closure statically known (func literal created in this activation)
	Clo *Closure
	// multi-value (tuple) result
	Tuple []Term
}

func (t Term) String() string { return t.S }

func bvLit(v uint64, w int) string {
	if w%4 == 0 {
		if w < 64 {
			v &= (uint64(1) << uint(w)) - 1
		}
		return fmt.Sprintf("#x%0*x", w/4, v)
	}
	if w < 64 {
		v &= (uint64(1) << uint(w)) - 1
	}
	return fmt.Sprintf("#b%0*b", w, v)
}

func intLit(v int64) string {
	if v < 0 {
		if v == -9223372036854775808 {
			return "(- 9223372036854775808)"
		}
		return fmt.Sprintf("(- %d)", -v)
	}
	return fmt.Sprintf("%d", v)
}

func smtAnd(xs ...string) string {
	var ys []string
	for _, x := range xs {
		if x == "true" || x == "" {
			continue
		}
		if x == "false" {
			return "false"
		}
		ys = append(ys, x)
	}
	if len(ys) == 0 {
		return "true"
	}
	if len(ys) == 1 {
		return ys[0]
	}
	return "(and " + strings.Join(ys, " ") + ")"
}
func smtOr(xs ...string) string {
	var ys []string
	for _, x := range xs {
		if x == "false" || x == "" {
			continue
		}
		if x == "true" {
			return "true"
		}
		ys = append(ys, x)
	}
	if len(ys) == 0 {
		return "false"
	}
	if len(ys) == 1 {
		return ys[0]
	}
	return "(or " + strings.Join(ys, " ") + ")"
}
func smtNot(x string) string {
	if x == "true" {
		return "false"
	}
	if x == "false" {
		return "true"
	}
	if strings.HasPrefix(x, "(not ") && balanced(x[5:len(x)-1]) {
		return x[5 : len(x)-1]
	}
	return "(not " + x + ")"
}
func balanced(s string) bool {
	d := 0
	for _, c := range s {
		if c == '(' {
			d++
		} else if c == ')' {
			d--
			if d < 0 {
				return false
			}
		}
	}
	return d == 0
}
func smtImp(a, b string) string {
	if a == "true" {
		return b
	}
	if b == "true" || a == "false" {
		return "true"
	}
	return "(=> " + a + " " + b + ")"
}
func smtIte(c, a, b string) string {
	if c == "true" {
		return a
	}
	if c == "false" {
		return b
	}
	if a == b {
		return a
	}
	return "(ite " + c + " " + a + " " + b + ")"
}
func smtEq(a, b string) string {
	if a == b {
		return "true"
	}
	return "(= " + a + " " + b + ")"
}
// ctorFields maps a datatype constructor to its accessors in order (filled when datatypes are declared).
var ctorFields = map[string][]string{"mkSlice": {"sarr", "soff", "slen", "scap"}, "mkObj": {"otag", "oref", "ostr"}}
var accessorOf = map[string][2]string{"sarr": {"mkSlice", "0"}, "soff": {"mkSlice", "1"}, "slen": {"mkSlice", "2"}, "scap": {"mkSlice", "3"}, "otag": {"mkObj", "0"}, "oref": {"mkObj", "1"}, "ostr": {"mkObj", "2"}}

// topArgs splits the arguments of an application "(f a b c)".
func topArgs(s string) (string, []string) {
	if len(s) < 2 || s[0] != '(' {
		return "", nil
	}
	body := s[1 : len(s)-1]
	var parts []string
	depth := 0
	cur := ""
	for i := 0; i < len(body); i++ {
		c := body[i]
		switch {
		case c == '(':
			depth++
			cur += string(c)
		case c == ')':
			depth--
			cur += string(c)
		case c == ' ' && depth == 0:
			if cur != "" {
				parts = append(parts, cur)
				cur = ""
			}
		default:
			cur += string(c)
		}
	}
	if cur != "" {
		parts = append(parts, cur)
	}
	if len(parts) == 0 {
		return "", nil
	}
	return parts[0], parts[1:]
}

func app(f string, args ...string) string {
	if len(args) == 0 {
		return f
	}
	// accessor applied to a constructor term: project
	if len(args) == 1 {
		if ac, ok := accessorOf[f]; ok && strings.HasPrefix(args[0], "("+ac[0]+" ") {
			if _, as := topArgs(args[0]); as != nil {
				var k int
				fmt.Sscanf(ac[1], "%d", &k)
				if k < len(as) {
					return as[k]
				}
			}
		}
	}
	// select over store at the syntactically same index
	if f == "select" && len(args) == 2 && strings.HasPrefix(args[0], "(store ") {
		if _, as := topArgs(args[0]); len(as) == 3 && as[1] == args[1] {
			return as[2]
		}
	}
	return "(" + f + " " + strings.Join(args, " ") + ")"
}

// Prelude holds global declarations shared by every query of a run.
type Prelude struct {
	lines    []string
	seen     map[string]bool
	axioms   []string // named global axioms (carrier lemmas etc.)
	axNames  []string
	objTags  map[string]int // Go type string -> dynamic type tag
	tagNames []string
}

func newPrelude() *Prelude {
	p := &Prelude{seen: map[string]bool{}, objTags: map[string]int{}}
	p.add("(define-sort F64 () (_ FloatingPoint 11 53))")
	p.add("(declare-sort Str 0)")
	p.add("(declare-datatypes ((Slice 0)) (((mkSlice (sarr Int) (soff Int) (slen Int) (scap Int)))))")
	p.add("(declare-datatypes ((Obj 0)) (((mkObj (otag Int) (oref Int) (ostr Str)))))")
	p.add("(declare-const str_empty Str)")
	p.add("(declare-fun str_len (Str) Int)")
	p.add("(declare-fun str_cat (Str Str) Str)")
	p.add("(declare-fun str_sub (Str Int Int) Str)")
	p.add("(declare-fun str_at (Str Int) (_ BitVec 8))")
	p.add("(declare-fun str_lt (Str Str) Bool)")
	p.add("(declare-fun str_lit (Int) Str)")
	p.add("(assert (forall ((i Int) (j Int)) (! (=> (= (str_lit i) (str_lit j)) (= i j)) :pattern ((str_lit i) (str_lit j)))))")
	p.add("(assert (= (str_len str_empty) 0))")
	p.add("(assert (forall ((s Str)) (! (>= (str_len s) 0) :pattern ((str_len s)))))")
	p.add("(assert (forall ((a Str) (b Str)) (! (= (str_len (str_cat a b)) (+ (str_len a) (str_len b))) :pattern ((str_cat a b)))))")
	p.add("(assert (forall ((a Str) (b Str) (c Str)) (! (=> (= (str_cat a b) (str_cat a c)) (= b c)) :pattern ((str_cat a b) (str_cat a c)))))")
	p.add("(declare-fun str_of_rune ((_ BitVec 32)) Str)")
	// int <-> bitvector bridges (machine ints treated as mathematical; listed as an assumption)
	p.add("(declare-fun i2bv64 (Int) (_ BitVec 64))")
	p.add("(declare-fun bv2i64 ((_ BitVec 64)) Int)")
	p.add("(declare-fun ubv2i64 ((_ BitVec 64)) Int)")
	// the unsigned reading of a bit-vector is non-negative, and small values read as themselves
	p.add("(assert (forall ((y (_ BitVec 64))) (! (and (<= 0 (ubv2i64 y)) (=> (bvule y #x000000000000ffff) (<= (ubv2i64 y) 65535))) :pattern ((ubv2i64 y)))))")
	// float carriers
	p.add("(declare-fun toF64 ((_ BitVec 64)) F64)")
	p.add("(declare-fun utoF64 ((_ BitVec 64)) F64)")
	for _, n := range []string{"s8", "u8", "s32", "u32", "s64", "u64"} {
		w := carrierWidth(n)
		p.add(fmt.Sprintf("(declare-fun fromF_%s (F64) (_ BitVec %d))", n, w))
	}
	return p
}

func carrierWidth(n string) int {
	switch n {
	case "s8", "u8":
		return 8
	case "s32", "u32":
		return 32
	}
	return 64
}

func (p *Prelude) add(l string) {
	if p.seen[l] {
		return
	}
	p.seen[l] = true
	p.lines = append(p.lines, l)
}

func (p *Prelude) tagOf(typeStr string) int {
	if n, ok := p.objTags[typeStr]; ok {
		return n
	}
	n := len(p.objTags) + 1
	p.objTags[typeStr] = n
	p.tagNames = append(p.tagNames, typeStr)
	return n
}

func (p *Prelude) text() string {
	return strings.Join(p.lines, "\n") + "\n"
}

// in-range predicates for carriers over a 64-bit signed source
func inRange(n, y string) string {
	switch n {
	case "s8":
		return fmt.Sprintf("(and (bvsle #xffffffffffffff80 %s) (bvsle %s #x000000000000007f))", y, y)
	case "u8":
		return fmt.Sprintf("(and (bvsle #x0000000000000000 %s) (bvsle %s #x00000000000000ff))", y, y)
	case "s32":
		return fmt.Sprintf("(and (bvsle #xffffffff80000000 %s) (bvsle %s #x000000007fffffff))", y, y)
	case "u32":
		return fmt.Sprintf("(and (bvsle #x0000000000000000 %s) (bvsle %s #x00000000ffffffff))", y, y)
	case "s64", "u64":
		// exactly representable in float64: |y| <= 2^53 (u64: also non-negative)
		lo := "#xffe0000000000000"
		if n == "u64" {
			lo = "#x0000000000000000"
		}
		return fmt.Sprintf("(and (bvsle %s %s) (bvsle %s #x0020000000000000))", lo, y, y)
	}
	panic("inRange " + n)
}

// carrierAxioms returns the quantified axioms relating fromF_N and toF64, and for each
// the self-contained lemma query that proves it with the real floating-point semantics.
func carrierAxioms() (axioms map[string]string, lemmas map[string]string) {
	axioms = map[string]string{}
	lemmas = map[string]string{}
	for _, n := range []string{"s8", "u8", "s32", "u32", "s64", "u64"} {
		w := carrierWidth(n)
		ext := "y"
		if w < 64 {
			ext = fmt.Sprintf("((_ extract %d 0) y)", w-1)
		}
		axioms["RT_"+n] = fmt.Sprintf("(forall ((y (_ BitVec 64))) (! (=> %s (= (fromF_%s (toF64 y)) %s)) :pattern ((fromF_%s (toF64 y)))))", inRange(n, "y"), n, ext, n)
		conv := fmt.Sprintf("((_ fp.to_sbv %d) RTZ f)", w)
		if n[0] == 'u' {
			conv = fmt.Sprintf("((_ fp.to_ubv %d) RTZ f)", w)
		}
		lemmas["RT_"+n] = fmt.Sprintf(`(set-logic QF_FPBV)
(declare-const y (_ BitVec 64))
(define-fun f () (_ FloatingPoint 11 53) ((_ to_fp 11 53) RNE y))
(assert %s)
(assert (not (= %s %s)))
(check-sat)
`, inRange(n, "y"), conv, ext)
	}
	for _, c := range [][3]string{{"lt", "fp.lt", "bvslt"}, {"leq", "fp.leq", "bvsle"}, {"eq", "fp.eq", "="}} {
		axioms["MONO_"+c[0]] = fmt.Sprintf("(forall ((x (_ BitVec 64)) (y (_ BitVec 64))) (! (=> (and %s %s) (= (%s (toF64 x) (toF64 y)) (%s x y))) :pattern ((toF64 x) (toF64 y))))", inRange("s64", "x"), inRange("s64", "y"), c[1], c[2])
		lemmas["MONO_"+c[0]] = fmt.Sprintf(`(set-logic QF_FPBV)
(declare-const x (_ BitVec 64))
(declare-const y (_ BitVec 64))
(define-fun fx () (_ FloatingPoint 11 53) ((_ to_fp 11 53) RNE x))
(define-fun fy () (_ FloatingPoint 11 53) ((_ to_fp 11 53) RNE y))
(assert %s)
(assert %s)
(assert (not (= (%s fx fy) (%s x y))))
(check-sat)
`, inRange("s64", "x"), inRange("s64", "y"), c[1], c[2])
	}
	// multiplication is abstract in proof queries (hardOp); the facts about it that contracts need
	for _, w := range []int{8, 32, 64} {
		m1 := bvLit(^uint64(0), w)
		axioms[fmt.Sprintf("MULNEG_%d", w)] = fmt.Sprintf("(forall ((x (_ BitVec %d))) (! (= (go_bvmul%d x %s) (bvneg x)) :pattern ((go_bvmul%d x %s))))", w, w, m1, w, m1)
		lemmas[fmt.Sprintf("MULNEG_%d", w)] = fmt.Sprintf("(set-logic QF_BV)\n(declare-const x (_ BitVec %d))\n(assert (not (= (bvmul x %s) (bvneg x))))\n(check-sat)\n", w, m1)
	}
	// ground facts: 0.0 and 1.0 are the carriers of 0 and 1
	axioms["F_ZERO"] = "(= (toF64 #x0000000000000000) (_ +zero 11 53))"
	lemmas["F_ZERO"] = "(set-logic QF_FPBV)\n(assert (not (= ((_ to_fp 11 53) RNE #x0000000000000000) (_ +zero 11 53))))\n(check-sat)\n"
	axioms["F_ONE"] = "(= (toF64 #x0000000000000001) " + f64Lit(1.0) + ")"
	lemmas["F_ONE"] = "(set-logic QF_FPBV)\n(assert (not (= ((_ to_fp 11 53) RNE #x0000000000000001) " + f64Lit(1.0) + ")))\n(check-sat)\n"
	// order facts of the int<->bv bridge at the constants contracts compare against (two's
	// complement, |n| < 2^63); opt-in per unit with `axioms BRIDGE_ORD`
	{
		var cs []string
		for _, c := range []int64{-4503599627370496, -2147483648, -32768, -128, 0, 127, 255, 32767, 2147483647, 4294967295, 4503599627370496} {
			lit := bvLit(uint64(c), 64)
			cs = append(cs, fmt.Sprintf("(= (<= n %s) (bvsle (i2bv64 n) %s)) (= (>= n %s) (bvsge (i2bv64 n) %s))", intLit(c), lit, intLit(c), lit))
		}
		// negation commutes with the bridge except at the most negative value (bvneg fixes it, so
		// an unguarded clause contradicts the sign facts above: found by z3 4.8.12, DESIGN E12)
		cs = append(cs, "(=> (not (= (i2bv64 n) #x8000000000000000)) (= (i2bv64 (- n)) (bvneg (i2bv64 n))))")
		axioms["BRIDGE_ORD"] = "(forall ((n Int)) (! (and " + strings.Join(cs, " ") + ") :pattern ((i2bv64 n))))"
	}
	// gc/amd64 behaviour of the implementation-defined out-of-range float->uint32 conversion
	// (CVTTSD2SQ then truncation). ASSUMPTION, opt-in per unit, not a lemma.
	axioms["AMD64_u32"] = fmt.Sprintf("(forall ((y (_ BitVec 64))) (! (=> %s (= (fromF_u32 (toF64 y)) ((_ extract 31 0) y))) :pattern ((fromF_u32 (toF64 y)))))", inRange("s64", "y"))
	// toF64 is injective on exactly representable integers and fromF_s64 inverts it: covered by RT_s64.
	// bridge: bv2i64(i2bv64 n) = n   (machine int treated as mathematical: ASSUMPTION, not proved)
	axioms["BRIDGE_i2bv"] = "(forall ((n Int)) (! (= (bv2i64 (i2bv64 n)) n) :pattern ((i2bv64 n))))"
	axioms["BRIDGE_bv2i"] = "(forall ((y (_ BitVec 64))) (! (= (i2bv64 (bv2i64 y)) y) :pattern ((bv2i64 y))))"
	return
}

func sortedKeys[V any](m map[string]V) []string {
	var ks []string
	for k := range m {
		ks = append(ks, k)
	}
	sort.Strings(ks)
	return ks
}

// addFresh declares the predicate "allocated during the unit's execution"; the nil reference is
// never an allocated object.
func (p *Prelude) addFresh() {
	p.add("(declare-fun fresh$ (Int) Bool)")
	p.add("(assert (not (fresh$ 0)))")
}

package main

import (
	"fmt"
	"go/parser"
	"go/types"
	"strings"
)

// Spec lemmas: `lemma name(p T, q U)` blocks with requires/ensures over pure functions. They are
// proved once as their own unit (no body: requires assumed, ensures to be shown, typically in
// intmode bv with `reveal`), and instantiated explicitly where needed with `uselemma name(args)`.

func lemmaHeader(hdr string) (name string, pnames, ptypes []string) {
	i := strings.Index(hdr, "(")
	j := strings.LastIndex(hdr, ")")
	name = strings.TrimSpace(hdr[:i])
	if strings.TrimSpace(hdr[i+1:j]) == "" {
		return
	}
	for _, p := range strings.Split(hdr[i+1:j], ",") {
		f := strings.Fields(p)
		pnames = append(pnames, f[0])
		ptypes = append(ptypes, strings.Join(f[1:], " "))
	}
	return
}

func (g *Gen) verifyLemma(b *Block) {
	name, pnames, ptypes := lemmaHeader(b.Target)
	u := g.newUnit("lemma:"+name, nil, b)
	u.props = b.Props
	g.Funcs["lemma:"+name] = true
	st := &State{vars: map[types.Object]Term{}, named: map[string]Term{}, heaps: map[string]Term{}, decls: &u.decls, boxed: map[types.Object]*Loc{}}
	e := u.newEv(st)
	e.spec = true
	for k, pn := range pnames {
		tx, err := parser.ParseExpr(ptypes[k])
		if err != nil {
			g.errorf("lemma %s: bad type %q", name, ptypes[k])
			return
		}
		gt := e.evType(tx)
		if gt == nil {
			g.errorf("lemma %s: unknown type %q", name, ptypes[k])
			return
		}
		s := g.sortOf(gt, u.bv)
		nm := g.freshName(pn)
		st.declare(nm, s)
		st.named[pn] = Term{S: nm, Sort: s, T: gt, Signed: isSigned(gt)}
	}
	u.entry = st.clone()
	for _, c := range b.clauses("requires") {
		se := u.specEv(st, u.bodyPos)
		st.assume(se.evSpec(c.Text).S)
	}
	cov := u.addObl("lemma:"+name+"/cover", u.props, st, "false", "lemma hypotheses satisfiable", nil)
	cov.Cover = true
	for i, c := range b.clauses("ensures") {
		se := u.specEv(st, u.bodyPos)
		t := se.evSpec(c.Text)
		nm := c.Name
		if nm == "" {
			nm = fmt.Sprint(i)
		}
		u.addObl(fmt.Sprintf("lemma:%s/ensures#%s", name, nm), clauseProps(b, c), st, t.S, c.Text, nil)
	}
}

// useLemma instantiates `name(arg, ...)`: the lemma's requires become obligations at this point,
// its ensures are assumed.
func (e *Ev) useLemma(text string, oblPrefix string, props []string) {
	g := e.g()
	text = strings.TrimSpace(text)
	i := strings.Index(text, "(")
	if i < 0 || !strings.HasSuffix(text, ")") {
		e.errorf(nil, "uselemma: bad syntax %q", text)
		return
	}
	name := strings.TrimSpace(text[:i])
	var b *Block
	for _, blk := range g.C.Blocks {
		if blk.Kind == "lemma" {
			if n, _, _ := lemmaHeader(blk.Target); n == name {
				b = blk
			}
		}
	}
	if b == nil {
		e.errorf(nil, "uselemma: no lemma %s", name)
		return
	}
	_, pnames, ptypes := lemmaHeader(b.Target)
	args := splitTop(text[i+1:len(text)-1], ",")
	if len(pnames) == 0 {
		args = nil
	}
	if len(args) != len(pnames) {
		e.errorf(nil, "uselemma %s: %d args for %d params", name, len(args), len(pnames))
		return
	}
	lemBV := b.Flags["intmode"] == "bv"
	le := &Ev{u: e.u, st: e.st, old: e.old, spec: true, pos: e.pos, bv: lemBV, bound: map[string]Term{}, quiet: true}
	for k, a := range args {
		se := *e
		se.spec = true
		t := se.evSpec(a)
		tx, _ := parser.ParseExpr(ptypes[k])
		gt := le.evType(tx)
		if gt == nil {
			e.errorf(nil, "uselemma %s: unknown type %s", name, ptypes[k])
			return
		}
		t = se.toType(t, gt, nil)
		if lemBV != e.bv {
			if bt, ok := gt.Underlying().(*types.Basic); ok && bt.Kind() == types.Int && g.namedName(gt) != "Type" {
				if lemBV {
					t = Term{S: app("i2bv64", t.S), Sort: sBV64, T: gt, Signed: true}
				} else {
					t = Term{S: app("bv2i64", t.S), Sort: sInt, T: gt, Signed: true}
				}
			}
		}
		le.bound[pnames[k]] = t
	}
	// lemma clauses are evaluated with the lemma's own reveal set
	saveBlock := e.u.lemmaReveal
	e.u.lemmaReveal = b
	for k, c := range b.clauses("requires") {
		t := le.evSpec(c.Text)
		e.u.addObl(fmt.Sprintf("%s/uselemma:%s/requires#%d", oblPrefix, name, k), props, e.st, t.S, "hypothesis of lemma "+name+": "+c.Text, nil)
	}
	for _, c := range b.clauses("ensures") {
		t := le.evSpec(c.Text)
		e.st.assume(t.S)
	}
	e.u.lemmaReveal = saveBlock
}

package main

import (
	"fmt"
	"go/ast"
	"go/types"
	"sort"
	"strings"
)

// Gen is the global generation context of one run.
type Gen struct {
	ruleProps []string // properties of the fusion lemma being generated
	P        *Prog
	C        *Contracts
	Pre      *Prelude
	dtDone   map[string]bool
	Obls     []*Obligation
	Errors   []string // configuration / subset errors (exit 2)
	strLits  map[string]int
	Assumed  map[string]bool // assumptions actually used (for evidence)
	Funcs    map[string]bool // functions under contract that were verified
	fresh    int
	pureDecl map[string]bool
	Notes    []string
	boxed    map[*types.Var]bool
	heapSorts map[string]string
	mapSorts map[string][2]string
	Bounded  []string
	sortGoType map[string]types.Type
	symtab map[string]symEntry
}

func newGen(p *Prog, c *Contracts) *Gen {
	return &Gen{P: p, C: c, Pre: newPrelude(), dtDone: map[string]bool{}, strLits: map[string]int{}, Assumed: map[string]bool{}, Funcs: map[string]bool{}, pureDecl: map[string]bool{}, heapSorts: map[string]string{}, mapSorts: map[string][2]string{}}
}

func (g *Gen) errorf(format string, a ...any) {
	g.Errors = append(g.Errors, fmt.Sprintf(format, a...))
}

// Obligation is one proof obligation.
type Obligation struct {
	Name   string
	Props  []string
	Decls  []string
	Hyps   []string
	Goal   string
	Cover  bool   // a cover (reachability) query: expected sat
	Raw    string // self-contained query (lemmas); if set, Decls/Hyps/Goal unused
	Where  string
	Text   string // human-readable clause text
	Unit   string
	Inputs []ModelVar // terms to evaluate in a counter-model
	Replay *ReplaySpec
	// results
	Result  string
	Backend string
	Ms      int64
	Model   map[string]string
	Output  string
	unit    *Unit
	File    string
	ReplayConfirmed bool
	CexOutput string
	LightGoal string
	KnownFinding bool
	qs [4]string
	dropAxioms map[string]bool
}

type ModelVar struct {
	Name string
	Term string
}

// ---------- sorts ----------

func (g *Gen) namedName(t types.Type) string {
	if n, ok := t.(*types.Named); ok {
		return n.Obj().Name()
	}
	return ""
}

// sortOf maps a Go type to an SMT sort. bv says whether Go int is 64-bit vector.
func (g *Gen) sortOf(t types.Type, bv bool) string {
	s := g.sortOf1(t, bv)
	if g.sortGoType == nil {
		g.sortGoType = map[string]types.Type{}
	}
	if _, ok := g.sortGoType[s]; !ok || s != sInt {
		if s != sInt {
			g.sortGoType[s] = t
		}
	}
	return s
}

func (g *Gen) sortOf1(t types.Type, bv bool) string {
	intSort := sInt
	if bv {
		intSort = sBV64
	}
	switch g.namedName(t) {
	case "Type", "pos":
		return sBV64
	case "stringT":
		return sStr
	}
	switch u := t.Underlying().(type) {
	case *types.Basic:
		switch u.Kind() {
		case types.Bool, types.UntypedBool:
			return sBool
		case types.Int, types.UntypedInt:
			return intSort
		case types.Int64, types.Uint64, types.Uint, types.Uintptr:
			return sBV64
		case types.Int32, types.Uint32, types.UntypedRune:
			return sBV32
		case types.Int16, types.Uint16:
			return sBV16
		case types.Int8, types.Uint8:
			return sBV8
		case types.Float64, types.Float32, types.UntypedFloat:
			return sF64
		case types.String, types.UntypedString:
			return sStr
		case types.UntypedNil:
			return sObj
		}
	case *types.Struct:
		return g.structSort(t, bv)
	case *types.Pointer:
		return sInt
	case *types.Slice:
		return sSlice
	case *types.Map:
		return sInt
	case *types.Interface:
		return sObj
	case *types.Signature:
		return sInt
	case *types.TypeParam:
		return sObj
	case *types.Array:
		return fmt.Sprintf("(Array Int %s)", g.sortOf(u.Elem(), bv))
	}
	g.errorf("unsupported type %v", t)
	return sInt
}

func isSigned(t types.Type) bool {
	if b, ok := t.Underlying().(*types.Basic); ok {
		switch b.Kind() {
		case types.Int, types.Int8, types.Int16, types.Int32, types.Int64, types.UntypedInt, types.UntypedRune:
			return true
		}
	}
	return false
}

func (g *Gen) structName(t types.Type, bv bool) string {
	name := g.namedName(t)
	if name == "" {
		name = "anon" + fmt.Sprint(len(g.dtDone))
	}
	if bv {
		// structs containing int fields differ between modes; only a few are used in bv mode
		if g.structHasInt(t) {
			return name + "_bv"
		}
	}
	return name
}

func (g *Gen) structHasInt(t types.Type) bool {
	st := t.Underlying().(*types.Struct)
	for i := 0; i < st.NumFields(); i++ {
		ft := st.Field(i).Type()
		if g.namedName(ft) == "Type" || g.namedName(ft) == "pos" {
			continue
		}
		if b, ok := ft.Underlying().(*types.Basic); ok && b.Kind() == types.Int {
			return true
		}
		if _, ok := ft.Underlying().(*types.Struct); ok && g.structHasInt(ft) {
			return true
		}
	}
	return false
}

func (g *Gen) structSort(t types.Type, bv bool) string {
	name := g.structName(t, bv)
	if g.dtDone[name] {
		return name
	}
	g.dtDone[name] = true
	st := t.Underlying().(*types.Struct)
	var fs []string
	for i := 0; i < st.NumFields(); i++ {
		f := st.Field(i)
		fs = append(fs, fmt.Sprintf("(%s %s)", g.fieldAcc(name, f.Name()), g.sortOf(f.Type(), bv)))
	}
	if len(fs) == 0 {
		fs = append(fs, fmt.Sprintf("(%s Int)", g.fieldAcc(name, "_dummy")))
	}
	g.Pre.add(fmt.Sprintf("(declare-datatypes ((%s 0)) (((mk_%s %s))))", name, name, strings.Join(fs, " ")))
	for i := 0; i < st.NumFields(); i++ {
		accessorOf[g.fieldAcc(name, st.Field(i).Name())] = [2]string{"mk_" + name, fmt.Sprint(i)}
	}
	return name
}

func (g *Gen) fieldAcc(structName, field string) string {
	return structName + "$" + field
}

func (g *Gen) strLit(s string) string {
	if s == "" {
		return "str_empty"
	}
	n, ok := g.strLits[s]
	if !ok {
		n = len(g.strLits) + 1
		g.strLits[s] = n
		// literals are distinct strings of known length
		g.Pre.add(fmt.Sprintf("(assert (= (str_len (str_lit %d)) %d))", n, len(s)))
		g.Pre.add(fmt.Sprintf("(assert (not (= (str_lit %d) str_empty)))", n))
	}
	return fmt.Sprintf("(str_lit %d)", n)
}

// zero value of a Go type
func (g *Gen) zero(t types.Type, bv bool) Term {
	s := g.sortOf(t, bv)
	r := Term{Sort: s, T: t, Signed: isSigned(t)}
	switch {
	case s == sBool:
		r.S = "false"
	case s == sInt:
		r.S = "0"
	case isBV(s):
		r.S = bvLit(0, bvWidth(s))
	case s == sF64:
		r.S = "(_ +zero 11 53)"
	case s == sStr:
		r.S = "str_empty"
	case s == sSlice:
		r.S = "(mkSlice 0 0 0 0)"
	case s == sObj:
		r.S = "(mkObj 0 0 str_empty)"
	default:
		if st, ok := t.Underlying().(*types.Struct); ok {
			var fs []string
			for i := 0; i < st.NumFields(); i++ {
				fs = append(fs, g.zero(st.Field(i).Type(), bv).S)
			}
			if len(fs) == 0 {
				fs = []string{"0"}
			}
			r.S = app("mk_"+s, fs...)
		} else {
			g.errorf("zero of %v", t)
			r.S = "0"
		}
	}
	return r
}

func (g *Gen) freshName(base string) string {
	g.fresh++
	base = strings.Map(func(r rune) rune {
		if r >= 'a' && r <= 'z' || r >= 'A' && r <= 'Z' || r >= '0' && r <= '9' || r == '_' || r == '$' {
			return r
		}
		return '_'
	}, base)
	return fmt.Sprintf("%s!%d", base, g.fresh)
}

// ---------- state ----------

// Loc is a memory location resolved at translation time.
type Loc struct {
	Kind string // "var", "heap", "elem", "field"
	Var  *types.Var
	Name string // variable name (var) / heap name (heap: H$T ; elem: A$sort)
	Ref  string // heap: ref term ; elem: array id term
	Idx  string // elem: index term (absolute, off included)
	Base *Loc   // field: enclosing location
	Fld  string // field: field name
	T    types.Type
	KS, VS string // mapelem: key / value sorts
}

type Closure struct {
	Lit  *ast.FuncLit
	Env  *State // defining state (captured variables are shared by reference through boxes)
	Unit *Unit
	Ord  int
}

// State is a symbolic state on one path.
type State struct {
	vars   map[types.Object]Term
	named  map[string]Term // spec-level names (result, bound vars, ghost)
	heaps  map[string]Term // heap name -> array term
	pc     []string
	fact   []bool // parallel to pc: true for assumed facts, false for branch conditions
	decls  *[]string
	dead   bool
	boxed  map[types.Object]*Loc
	allocs []string // refs allocated on this path (fresh, distinct from older ones)
}

func (s *State) clone() *State {
	n := &State{vars: map[types.Object]Term{}, named: map[string]Term{}, heaps: map[string]Term{}, decls: s.decls, boxed: map[types.Object]*Loc{}}
	for k, v := range s.vars {
		n.vars[k] = v
	}
	for k, v := range s.named {
		n.named[k] = v
	}
	for k, v := range s.heaps {
		n.heaps[k] = v
	}
	for k, v := range s.boxed {
		n.boxed[k] = v
	}
	n.pc = append([]string(nil), s.pc...)
	n.fact = append([]bool(nil), s.fact...)
	n.allocs = append([]string(nil), s.allocs...)
	return n
}

func (s *State) assume(c string) {
	if c == "true" || c == "" {
		return
	}
	s.pc = append(s.pc, c)
	s.fact = append(s.fact, true)
}

// branch records a path condition (as opposed to an assumed fact).
func (s *State) branch(c string) {
	if c == "true" || c == "" {
		return
	}
	s.pc = append(s.pc, c)
	s.fact = append(s.fact, false)
}

func (s *State) declare(name, sort string) {
	*s.decls = append(*s.decls, fmt.Sprintf("(declare-const %s %s)", name, sort))
}
func (s *State) declareFun(name string, args []string, sort string) {
	*s.decls = append(*s.decls, fmt.Sprintf("(declare-fun %s (%s) %s)", name, strings.Join(args, " "), sort))
}

func sortedHeapNames(m map[string]Term) []string {
	var ks []string
	for k := range m {
		ks = append(ks, k)
	}
	sort.Strings(ks)
	return ks
}

package main

import (
	"fmt"
	"go/ast"
	"go/constant"
	"go/token"
	"go/types"
	"math/big"
	"strconv"
	"strings"
)

// Ev is an expression evaluation context.
type Ev struct {
	u     *Unit
	st    *State
	old   *State
	spec  bool
	pos   token.Pos // position for name resolution of spec identifiers
	guard []string
	bound map[string]Term
	// results of the enclosing unit / callee (spec: result, result0.. and named results)
	results []Term
	resNames []string
	bv    bool
	// when evaluating a callee's contract: do not emit panic obligations
	quiet bool
	qvars []string // binders of enclosing spec quantifiers
	wfSeen map[string]bool
	matPairs [][2]*Loc // (temporary, original location) of pointers materialized for the call in progress
	qindex map[string][][2]string // bound variable -> (offset term, select term) of its uses as a plain slice index (first two distinct arrays)
	inTypeInv bool
	noPack bool
	instSig *types.Signature
	allocPred string // at a call site: the predicate 'allocated by this call'
}

func (e *Ev) g() *Gen { return e.u.g }

func (e *Ev) errorf(n ast.Node, format string, a ...any) Term {
	where := ""
	if n != nil && n.Pos().IsValid() && !e.spec {
		where = e.g().P.pos(n) + ": "
	}
	e.g().errorf("%s: %s%s", e.u.name, where, fmt.Sprintf(format, a...))
	return Term{S: "0", Sort: sInt}
}

func (e *Ev) intSort() string {
	if e.bv {
		return sBV64
	}
	return sInt
}

func (e *Ev) sortOf(t types.Type) string { return e.g().sortOf(t, e.bv) }

func (e *Ev) guardCond() string { return smtAnd(e.guard...) }

// panicIf records that, under cond, evaluation panics here.
func (e *Ev) panicIf(cond string, why string, n ast.Node) {
	if e.spec || e.quiet || cond == "false" {
		return
	}
	full := smtAnd(e.guardCond(), cond)
	e.u.panicExit(e.st, full, why, n)
	// on the continuing path the panic did not happen
	e.st.branch(smtImp(e.guardCond(), smtNot(cond)))
}

// ---------- constants ----------

func (e *Ev) constTerm(v constant.Value, t types.Type) Term {
	s := e.sortOf(t)
	r := Term{Sort: s, T: t, Signed: isSigned(t)}
	switch v.Kind() {
	case constant.Bool:
		r.S = fmt.Sprint(constant.BoolVal(v))
		r.Sort = sBool
	case constant.String:
		r.S = e.g().strLit(constant.StringVal(v))
		r.Sort = sStr
	case constant.Int:
		bi, _ := new(big.Int).SetString(v.ExactString(), 10)
		switch {
		case s == sInt:
			if bi.Sign() < 0 {
				r.S = "(- " + new(big.Int).Neg(bi).String() + ")"
			} else {
				r.S = bi.String()
			}
		case isBV(s):
			w := bvWidth(s)
			m := new(big.Int).Lsh(big.NewInt(1), uint(w))
			x := new(big.Int).Mod(bi, m)
			r.S = bvLit(x.Uint64(), w)
		case s == sF64:
			f, _ := new(big.Float).SetInt(bi).Float64()
			r.S = f64Lit(f)
		default:
			return e.errorf(nil, "int constant of sort %s", s)
		}
	case constant.Float:
		f, _ := constant.Float64Val(v)
		if s == sF64 {
			r.S = f64Lit(f)
		} else {
			return e.errorf(nil, "float constant of sort %s", s)
		}
	default:
		return e.errorf(nil, "constant kind %v", v.Kind())
	}
	return r
}

func f64Lit(f float64) string {
	bits := mathFloat64bits(f)
	sign := bits >> 63
	exp := (bits >> 52) & 0x7ff
	man := bits & ((1 << 52) - 1)
	return fmt.Sprintf("(fp #b%b #b%011b #b%052b)", sign, exp, man)
}

func (e *Ev) uconst(text string) Term {
	t := text
	return Term{UConst: &t, S: "", Sort: ""}
}

// coerce turns an untyped constant into a term of the given sort.
func (e *Ev) coerce(t Term, sort string, signed bool, gt types.Type) Term {
	if t.UConst == nil {
		return t
	}
	bi, ok := new(big.Int).SetString(*t.UConst, 0)
	if !ok {
		e.errorf(nil, "bad constant %q", *t.UConst)
		bi = big.NewInt(0)
	}
	r := Term{Sort: sort, T: gt, Signed: signed}
	switch {
	case sort == sInt || sort == "":
		r.Sort = sInt
		if bi.Sign() < 0 {
			r.S = "(- " + new(big.Int).Neg(bi).String() + ")"
		} else {
			r.S = bi.String()
		}
	case isBV(sort):
		w := bvWidth(sort)
		m := new(big.Int).Lsh(big.NewInt(1), uint(w))
		x := new(big.Int).Mod(bi, m)
		r.S = bvLit(x.Uint64(), w)
	case sort == sF64:
		f, _ := new(big.Float).SetInt(bi).Float64()
		r.S = f64Lit(f)
	default:
		e.errorf(nil, "cannot coerce constant %s to %s", *t.UConst, sort)
		r.S = "0"
	}
	return r
}

func (e *Ev) unify(a, b Term) (Term, Term) {
	if a.UConst != nil && b.UConst != nil {
		return e.coerce(a, e.intSort(), true, types.Typ[types.Int]), e.coerce(b, e.intSort(), true, types.Typ[types.Int])
	}
	if a.UConst != nil {
		return e.coerce(a, b.Sort, b.Signed, b.T), b
	}
	if b.UConst != nil {
		return a, e.coerce(b, a.Sort, a.Signed, a.T)
	}
	return a, b
}

// ---------- main evaluator ----------

func (e *Ev) ev(x ast.Expr) Term {
	if !e.spec {
		if tv, ok := e.g().P.Info.Types[x]; ok && tv.Value != nil {
			// constant expression
			if b, ok := tv.Type.Underlying().(*types.Basic); ok && b.Info()&types.IsUntyped != 0 && b.Kind() != types.UntypedBool && b.Kind() != types.UntypedString {
				// untyped constant whose type was not fixed (e.g. shift counts): default type
				return e.constTerm(tv.Value, types.Default(tv.Type))
			}
			return e.constTerm(tv.Value, tv.Type)
		}
	}
	switch n := x.(type) {
	case *ast.ParenExpr:
		return e.ev(n.X)
	case *ast.BasicLit:
		return e.lit(n)
	case *ast.Ident:
		return e.ident(n)
	case *ast.BinaryExpr:
		return e.binary(n)
	case *ast.UnaryExpr:
		return e.unary(n)
	case *ast.SelectorExpr:
		return e.selector(n)
	case *ast.IndexExpr:
		return e.index(n)
	case *ast.SliceExpr:
		return e.sliceExpr(n)
	case *ast.CallExpr:
		return e.call(n)
	case *ast.StarExpr:
		p := e.ev(n.X)
		return e.load(e.derefLoc(p, n), n)
	case *ast.TypeAssertExpr:
		v, ok := e.typeAssert(n)
		e.panicIf(smtNot(ok), "type assertion", n)
		return v
	case *ast.CompositeLit:
		return e.composite(n)
	case *ast.FuncLit:
		return e.funcLit(n)
	}
	return e.errorf(x, "unsupported expression %T", x)
}

func (e *Ev) lit(n *ast.BasicLit) Term {
	switch n.Kind {
	case token.INT:
		return e.uconst(n.Value)
	case token.STRING:
		s, _ := strconv.Unquote(n.Value)
		return Term{S: e.g().strLit(s), Sort: sStr, T: types.Typ[types.String]}
	case token.CHAR:
		s, _, _, _ := strconv.UnquoteChar(n.Value[1:len(n.Value)-1], '\'')
		return e.uconst(fmt.Sprint(int(s)))
	case token.FLOAT:
		f, _ := strconv.ParseFloat(n.Value, 64)
		return Term{S: f64Lit(f), Sort: sF64, T: types.Typ[types.Float64]}
	}
	return e.errorf(n, "literal kind %v", n.Kind)
}

func (e *Ev) lookupObj(name string) types.Object {
	if e.pos.IsValid() {
		sc := e.g().P.Pkg.Types.Scope().Innermost(e.pos)
		if sc != nil {
			if _, obj := sc.LookupParent(name, e.pos); obj != nil {
				return obj
			}
		}
	}
	if obj := e.g().P.Pkg.Types.Scope().Lookup(name); obj != nil {
		return obj
	}
	return types.Universe.Lookup(name)
}

func (e *Ev) ident(n *ast.Ident) Term {
	name := n.Name
	if e.spec {
		if t, ok := e.bound[name]; ok {
			return t
		}
		if t, ok := e.st.named[name]; ok {
			return t
		}
		if name == "result" || strings.HasPrefix(name, "result") {
			idx := 0
			if len(name) > 6 {
				idx, _ = strconv.Atoi(name[6:])
			}
			if idx < len(e.results) {
				return e.results[idx]
			}
			return e.errorf(n, "no %s here", name)
		}
		for i, rn := range e.resNames {
			if rn == name && i < len(e.results) {
				return e.results[i]
			}
		}
	}
	var obj types.Object
	if !e.spec {
		obj = e.g().P.Info.Uses[n]
		if obj == nil {
			obj = e.g().P.Info.Defs[n]
		}
	} else {
		obj = e.lookupObj(name)
		if obj == nil {
			obj = e.renamedLocal(name)
		}
	}
	if obj == nil {
		return e.errorf(n, "unresolved identifier %s", name)
	}
	return e.objTerm(obj, n)
}

func (e *Ev) objTerm(obj types.Object, n ast.Node) Term {
	switch o := obj.(type) {
	case *types.Const:
		return e.constTerm(o.Val(), o.Type())
	case *types.Nil:
		return Term{S: "nil", Sort: "nil"}
	case *types.Var:
		if loc, ok := e.st.boxed[o]; ok {
			return e.load(loc, n)
		}
		if t, ok := e.st.vars[o]; ok {
			return t
		}
		if o.Parent() == e.g().P.Pkg.Types.Scope() || o.Pkg() != e.g().P.Pkg.Types {
			// package-level variable: a global heap cell
			return e.globalVar(o)
		}
		return e.errorf(n, "variable %s has no value here", o.Name())
	case *types.Func:
		return Term{S: "0", Sort: sInt, T: o.Type()}
	case *types.Builtin:
		return Term{S: o.Name(), Sort: "builtin"}
	case *types.TypeName:
		return Term{S: o.Name(), Sort: "type", T: o.Type()}
	}
	return e.errorf(n, "unsupported object %T", obj)
}

func (e *Ev) globalVar(o *types.Var) Term {
	name := "G$" + o.Name()
	s := e.sortOf(o.Type())
	if _, ok := e.st.heaps[name]; !ok {
		// globals are modelled as immutable symbolic constants unless written
		e.g().Pre.add(fmt.Sprintf("(declare-const %s %s)", name, s))
		if s == sObj && o.Pkg() != nil && o.Pkg() != e.g().P.Pkg.Types && strings.HasPrefix(o.Name(), "Err") {
			// sentinel errors of dependencies (os.ErrNotExist, ...) are non-nil
			e.g().Pre.add(fmt.Sprintf("(assert (not (= %s (mkObj 0 0 str_empty))))", name))
			e.g().Assumed["sentinel error "+o.Pkg().Path()+"."+o.Name()+" is non-nil"] = true
		}
		e.st.heaps[name] = Term{S: name, Sort: s, T: o.Type()}
	}
	t := e.st.heaps[name]
	t.T = o.Type()
	return t
}

// ---------- operators ----------

func (e *Ev) unary(n *ast.UnaryExpr) Term {
	switch n.Op {
	case token.NOT:
		x := e.ev(n.X)
		return Term{S: smtNot(x.S), Sort: sBool, T: x.T}
	case token.SUB:
		x := e.ev(n.X)
		if x.UConst != nil {
			return e.uconst("-" + *x.UConst)
		}
		switch {
		case x.Sort == sInt:
			return Term{S: app("-", x.S), Sort: sInt, T: x.T, Signed: true}
		case isBV(x.Sort):
			return Term{S: app("bvneg", x.S), Sort: x.Sort, T: x.T, Signed: x.Signed}
		case x.Sort == sF64:
			return Term{S: app("fp.neg", x.S), Sort: sF64, T: x.T}
		}
	case token.ADD:
		return e.ev(n.X)
	case token.XOR:
		x := e.ev(n.X)
		if isBV(x.Sort) {
			return Term{S: app("bvnot", x.S), Sort: x.Sort, T: x.T, Signed: x.Signed}
		}
		if x.Sort == sInt {
			return Term{S: app("-", app("-", x.S), "1"), Sort: sInt, T: x.T, Signed: true}
		}
	case token.AND:
		// address-of
		if cl, ok := n.X.(*ast.CompositeLit); ok {
			return e.allocStruct(cl)
		}
		loc := e.lvalue(n.X)
		if loc == nil {
			return e.errorf(n, "cannot take address")
		}
		return e.addrOf(loc, n)
	}
	return e.errorf(n, "unsupported unary %v", n.Op)
}

func (e *Ev) binary(n *ast.BinaryExpr) Term {
	switch n.Op {
	case token.LAND, token.LOR:
		a := e.ev(n.X)
		g := a.S
		if n.Op == token.LOR {
			g = smtNot(a.S)
		}
		e.guard = append(e.guard, g)
		b := e.ev(n.Y)
		e.guard = e.guard[:len(e.guard)-1]
		if n.Op == token.LAND {
			return Term{S: smtAnd(a.S, b.S), Sort: sBool, T: types.Typ[types.Bool]}
		}
		return Term{S: smtOr(a.S, b.S), Sort: sBool, T: types.Typ[types.Bool]}
	}
	a := e.ev(n.X)
	b := e.ev(n.Y)
	return e.binop(n.Op, a, b, n)
}

func (e *Ev) binop(op token.Token, a, b Term, n ast.Node) Term {
	isShift := op == token.SHL || op == token.SHR
	if isShift {
		if a.UConst != nil {
			a = e.coerce(a, e.intSort(), true, types.Typ[types.Int])
		}
		if b.UConst != nil {
			if isBV(a.Sort) {
				b = e.coerce(b, a.Sort, false, nil)
			} else {
				b = e.coerce(b, sInt, true, nil)
			}
		}
		return e.shift(op, a, b, n)
	}
	if a.Sort == "nil" || b.Sort == "nil" {
		return e.nilCompare(op, a, b, n)
	}
	a, b = e.unify(a, b)
	if a.Sort != b.Sort {
		return e.errorf(n, "operand sorts differ: %s (%s) vs %s (%s) in %v", a.Sort, a.S, b.Sort, b.S, op)
	}
	boolT := types.Typ[types.Bool]
	res := func(s string) Term { return Term{S: s, Sort: a.Sort, T: a.T, Signed: a.Signed} }
	cmp := func(s string) Term { return Term{S: s, Sort: sBool, T: boolT} }
	switch {
	case a.Sort == sBool:
		switch op {
		case token.EQL:
			return cmp(smtEq(a.S, b.S))
		case token.NEQ:
			return cmp(smtNot(smtEq(a.S, b.S)))
		}
	case a.Sort == sInt:
		switch op {
		case token.ADD:
			return res(app("+", a.S, b.S))
		case token.SUB:
			return res(app("-", a.S, b.S))
		case token.MUL:
			return res(app("*", a.S, b.S))
		case token.QUO:
			e.panicIf(smtEq(b.S, "0"), "division by zero", n)
			return res(fmt.Sprintf("(ite (>= %s 0) (div %s %s) (- (div (- %s) %s)))", a.S, a.S, b.S, a.S, b.S))
		case token.REM:
			e.panicIf(smtEq(b.S, "0"), "division by zero", n)
			return res(fmt.Sprintf("(ite (>= %s 0) (mod %s %s) (- (mod (- %s) %s)))", a.S, a.S, b.S, a.S, b.S))
		case token.EQL:
			return cmp(smtEq(a.S, b.S))
		case token.NEQ:
			return cmp(smtNot(smtEq(a.S, b.S)))
		case token.LSS:
			return cmp(app("<", a.S, b.S))
		case token.LEQ:
			return cmp(app("<=", a.S, b.S))
		case token.GTR:
			return cmp(app(">", a.S, b.S))
		case token.GEQ:
			return cmp(app(">=", a.S, b.S))
		case token.AND:
			if k, ok := maskBits(b.S); ok {
				return res(fmt.Sprintf("(mod %s %s)", a.S, pow2(k)))
			}
			if k, ok := maskBits(a.S); ok {
				return res(fmt.Sprintf("(mod %s %s)", b.S, pow2(k)))
			}
			e.g().Pre.add("(declare-fun int_and (Int Int) Int)")
			return res(app("int_and", a.S, b.S))
		case token.OR:
			e.g().Pre.add("(declare-fun int_or (Int Int) Int)")
			return res(app("int_or", a.S, b.S))
		case token.XOR:
			e.g().Pre.add("(declare-fun int_xor (Int Int) Int)")
			return res(app("int_xor", a.S, b.S))
		}
	case isBV(a.Sort):
		sg := a.Signed
		switch op {
		case token.ADD:
			return res(app("bvadd", a.S, b.S))
		case token.SUB:
			return res(app("bvsub", a.S, b.S))
		case token.MUL:
			return res(app(e.hardOp("bvmul", a.Sort), a.S, b.S))
		case token.QUO:
			e.panicIf(smtEq(b.S, bvLit(0, bvWidth(a.Sort))), "division by zero", n)
			if sg {
				return res(app(e.hardOp("bvsdiv", a.Sort), a.S, b.S))
			}
			return res(app(e.hardOp("bvudiv", a.Sort), a.S, b.S))
		case token.REM:
			e.panicIf(smtEq(b.S, bvLit(0, bvWidth(a.Sort))), "division by zero", n)
			if sg {
				return res(app(e.hardOp("bvsrem", a.Sort), a.S, b.S))
			}
			return res(app(e.hardOp("bvurem", a.Sort), a.S, b.S))
		case token.AND:
			return res(app("bvand", a.S, b.S))
		case token.OR:
			return res(app("bvor", a.S, b.S))
		case token.XOR:
			return res(app("bvxor", a.S, b.S))
		case token.AND_NOT:
			return res(app("bvand", a.S, app("bvnot", b.S)))
		case token.EQL:
			return cmp(smtEq(a.S, b.S))
		case token.NEQ:
			return cmp(smtNot(smtEq(a.S, b.S)))
		case token.LSS:
			return cmp(app(ifs(sg, "bvslt", "bvult"), a.S, b.S))
		case token.LEQ:
			return cmp(app(ifs(sg, "bvsle", "bvule"), a.S, b.S))
		case token.GTR:
			return cmp(app(ifs(sg, "bvsgt", "bvugt"), a.S, b.S))
		case token.GEQ:
			return cmp(app(ifs(sg, "bvsge", "bvuge"), a.S, b.S))
		}
	case a.Sort == sF64:
		switch op {
		case token.ADD:
			return res(app("fp.add", "RNE", a.S, b.S))
		case token.SUB:
			return res(app("fp.sub", "RNE", a.S, b.S))
		case token.MUL:
			return res(app("fp.mul", "RNE", a.S, b.S))
		case token.QUO:
			return res(app("fp.div", "RNE", a.S, b.S))
		case token.EQL:
			return cmp(app("fp.eq", a.S, b.S))
		case token.NEQ:
			return cmp(smtNot(app("fp.eq", a.S, b.S)))
		case token.LSS:
			return cmp(app("fp.lt", a.S, b.S))
		case token.LEQ:
			return cmp(app("fp.leq", a.S, b.S))
		case token.GTR:
			return cmp(app("fp.gt", a.S, b.S))
		case token.GEQ:
			return cmp(app("fp.geq", a.S, b.S))
		}
	case a.Sort == sStr:
		switch op {
		case token.ADD:
			return res(app("str_cat", a.S, b.S))
		case token.EQL:
			return cmp(smtEq(a.S, b.S))
		case token.NEQ:
			return cmp(smtNot(smtEq(a.S, b.S)))
		case token.LSS:
			return cmp(app("str_lt", a.S, b.S))
		case token.LEQ:
			return cmp(smtOr(app("str_lt", a.S, b.S), smtEq(a.S, b.S)))
		case token.GTR:
			return cmp(app("str_lt", b.S, a.S))
		case token.GEQ:
			return cmp(smtOr(app("str_lt", b.S, a.S), smtEq(a.S, b.S)))
		}
	default:
		switch op {
		case token.EQL:
			return cmp(smtEq(a.S, b.S))
		case token.NEQ:
			return cmp(smtNot(smtEq(a.S, b.S)))
		}
	}
	return e.errorf(n, "unsupported operator %v on %s", op, a.Sort)
}

func ifs(c bool, a, b string) string {
	if c {
		return a
	}
	return b
}

func pow2(k int) string {
	return new(big.Int).Lsh(big.NewInt(1), uint(k)).String()
}

// maskBits recognises a non-negative literal of the form 2^k-1.
func maskBits(s string) (int, bool) {
	bi, ok := new(big.Int).SetString(s, 10)
	if !ok || bi.Sign() <= 0 {
		return 0, false
	}
	x := new(big.Int).Add(bi, big.NewInt(1))
	if x.BitLen()-1 >= 1 && new(big.Int).Lsh(big.NewInt(1), uint(x.BitLen()-1)).Cmp(x) == 0 {
		return x.BitLen() - 1, true
	}
	return 0, false
}

func (e *Ev) nilCompare(op token.Token, a, b Term, n ast.Node) Term {
	x := a
	if a.Sort == "nil" {
		x = b
	}
	if x.Sort == "nil" {
		return Term{S: ifs(op == token.EQL, "true", "false"), Sort: sBool}
	}
	if x.Sort != sInt && x.Sort != sSlice && x.Sort != sObj {
		return e.errorf(n, "comparison of a %s value with nil (the contract no longer fits the declaration)", x.Sort)
	}
	z := e.nilOf(x)
	r := smtEq(x.S, z)
	if x.Sort == sSlice {
		r = smtEq(app("sarr", x.S), "0")
	}
	if x.Sort == sObj {
		// the nil interface is the canonical value without dynamic type and payload
		r = smtEq(x.S, "(mkObj 0 0 str_empty)")
	}
	if op == token.NEQ {
		r = smtNot(r)
	}
	return Term{S: r, Sort: sBool, T: types.Typ[types.Bool]}
}

func (e *Ev) nilOf(x Term) string {
	switch x.Sort {
	case sInt:
		return "0"
	case sSlice:
		return "(mkSlice 0 0 0 0)"
	case sObj:
		return "(mkObj 0 0 str_empty)"
	}
	return "0"
}

func (e *Ev) shift(op token.Token, a, b Term, n ast.Node) Term {
	res := func(s string) Term { return Term{S: s, Sort: a.Sort, T: a.T, Signed: a.Signed} }
	if a.Sort == sInt {
		// only constant shift counts are supported on mathematical ints
		k, err := strconv.Atoi(b.S)
		if err != nil || k < 0 || k > 62 {
			return e.errorf(n, "shift of mathematical int by non-constant %s", b.S)
		}
		if op == token.SHL {
			return res(fmt.Sprintf("(* %s %s)", a.S, pow2(k)))
		}
		return res(fmt.Sprintf("(div %s %s)", a.S, pow2(k)))
	}
	if !isBV(a.Sort) {
		return e.errorf(n, "shift on %s", a.Sort)
	}
	w := bvWidth(a.Sort)
	// count
	var cnt string // count as bit-vector of width w; big says count >= w
	var big_ string
	switch {
	case b.Sort == sInt && func() bool { _, ok := intLiteral(b.S); return ok }():
		lit, _ := intLiteral(b.S)
		if lit.Sign() < 0 {
			e.panicIf("true", "negative shift", n)
		}
		if lit.IsInt64() && lit.Int64() >= int64(w) {
			big_ = "true"
		} else {
			big_ = "false"
		}
		cnt = bvLit(lit.Uint64(), w)
	case b.Sort == sInt:
		e.panicIf(app("<", b.S, "0"), "negative shift", n)
		big_ = app(">=", b.S, fmt.Sprint(w))
		cnt = fmt.Sprintf("((_ extract %d 0) (i2bv64 %s))", w-1, b.S)
		if w == 64 {
			cnt = app("i2bv64", b.S)
		}
	case isBV(b.Sort):
		bw := bvWidth(b.Sort)
		if b.Signed {
			e.panicIf(app("bvslt", b.S, bvLit(0, bw)), "negative shift", n)
		}
		if bw == w {
			cnt = b.S
			big_ = app("bvuge", b.S, bvLit(uint64(w), bw))
		} else if bw > w {
			big_ = app("bvuge", b.S, bvLit(uint64(w), bw))
			cnt = fmt.Sprintf("((_ extract %d 0) %s)", w-1, b.S)
		} else {
			cnt = fmt.Sprintf("((_ zero_extend %d) %s)", w-bw, b.S)
			if w < 256 && (bw >= 8 || (1<<uint(bw)) > w) {
				big_ = app("bvuge", cnt, bvLit(uint64(w), w))
			} else {
				big_ = "false"
			}
		}
	default:
		return e.errorf(n, "shift count sort %s", b.Sort)
	}
	var body, over string
	if op == token.SHL {
		body = app("bvshl", a.S, cnt)
		over = bvLit(0, w)
	} else if a.Signed {
		body = app("bvashr", a.S, cnt)
		over = app("bvashr", a.S, bvLit(uint64(w-1), w))
	} else {
		body = app("bvlshr", a.S, cnt)
		over = bvLit(0, w)
	}
	return res(smtIte(big_, over, body))
}

// ---------- conversions ----------

func (e *Ev) resizeBV(x Term, w int) string {
	xw := bvWidth(x.Sort)
	switch {
	case xw == w:
		return x.S
	case xw > w:
		return fmt.Sprintf("((_ extract %d 0) %s)", w-1, x.S)
	case x.Signed:
		return fmt.Sprintf("((_ sign_extend %d) %s)", w-xw, x.S)
	default:
		return fmt.Sprintf("((_ zero_extend %d) %s)", w-xw, x.S)
	}
}

// convert implements the Go conversion T(x).
func (e *Ev) convert(x Term, to types.Type, n ast.Node) Term {
	ts := e.sortOf(to)
	r := Term{Sort: ts, T: to, Signed: isSigned(to)}
	if x.UConst != nil {
		if ts == sF64 {
			return e.coerce(x, sF64, true, to)
		}
		if ts == sInt || isBV(ts) {
			return e.coerce(x, ts, isSigned(to), to)
		}
		x = e.coerce(x, e.intSort(), true, types.Typ[types.Int])
	}
	if x.Sort == "nil" {
		return e.toType(x, to, n)
	}
	_, toIface := to.Underlying().(*types.Interface)
	if toIface {
		return e.toType(x, to, n)
	}
	switch {
	case x.Sort == ts && (ts == sInt || ts == sStr || ts == sBool || ts == sF64 || ts == sSlice || ts == sObj):
		r.S = x.S
		return r
	case isBV(x.Sort) && isBV(ts):
		r.S = e.resizeBV(x, bvWidth(ts))
		return r
	case x.Sort == sInt && isBV(ts):
		w := bvWidth(ts)
		if lit, ok := intLiteral(x.S); ok {
			m := new(big.Int).Lsh(big.NewInt(1), uint(w))
			r.S = bvLit(new(big.Int).Mod(lit, m).Uint64(), w)
			return r
		}
		if w == 64 {
			r.S = app("i2bv64", x.S)
		} else {
			r.S = fmt.Sprintf("((_ extract %d 0) (i2bv64 %s))", w-1, x.S)
		}
		return r
	case isBV(x.Sort) && ts == sInt:
		y := e.resizeBV(x, 64)
		if x.Signed || bvWidth(x.Sort) < 64 {
			r.S = app("bv2i64", y)
		} else {
			r.S = app("ubv2i64", y)
		}
		return r
	case ts == sF64 && isBV(x.Sort):
		if !x.Signed && bvWidth(x.Sort) == 64 {
			r.S = app("utoF64", x.S)
		} else {
			r.S = app("toF64", e.resizeBV(x, 64))
		}
		return r
	case ts == sF64 && x.Sort == sInt:
		r.S = app("toF64", app("i2bv64", x.S))
		return r
	case x.Sort == sF64 && isBV(ts):
		r.S = app("fromF_"+carrierName(to, bvWidth(ts)), x.S)
		return r
	case x.Sort == sF64 && ts == sInt:
		r.S = app("bv2i64", app("fromF_s64", x.S))
		return r
	case ts == sStr && isBV(x.Sort):
		// string(rune)
		r.S = app("str_of_rune", e.resizeBV(x, 32))
		return r
	case ts == sStr && x.Sort == sInt:
		r.S = app("str_of_rune", fmt.Sprintf("((_ extract 31 0) (i2bv64 %s))", x.S))
		return r
	case ts == sStr && x.Sort == sSlice:
		// string([]byte): abstract function of the bytes
		e.g().Pre.add("(declare-fun str_of_bytes ((Array Int (_ BitVec 8)) Int Int) Str)")
		h := e.elemHeap(sBV8)
		r.S = app("str_of_bytes", app("select", h, app("sarr", x.S)), app("soff", x.S), app("slen", x.S))
		return r
	case ts == sSlice && x.Sort == sStr:
		// []byte(string): fresh array holding the bytes
		return e.bytesOfString(x, to, n)
	case x.Sort == ts:
		r.S = x.S
		return r
	}
	return e.errorf(n, "unsupported conversion %s -> %v (%s)", x.Sort, to, ts)
}

func intLiteral(s string) (*big.Int, bool) {
	if strings.HasPrefix(s, "(- ") && strings.HasSuffix(s, ")") {
		bi, ok := new(big.Int).SetString(s[3:len(s)-1], 10)
		if ok {
			return bi.Neg(bi), true
		}
		return nil, false
	}
	bi, ok := new(big.Int).SetString(s, 10)
	return bi, ok
}

func carrierName(t types.Type, w int) string {
	c := "u"
	if isSigned(t) {
		c = "s"
	}
	return fmt.Sprintf("%s%d", c, w)
}

// toType adapts a value to a target type on assignment (implicit interface conversion, nil).
func (e *Ev) toType(x Term, to types.Type, n ast.Node) Term {
	if to == nil {
		return x
	}
	ts := e.sortOf(to)
	if x.UConst != nil {
		return e.coerce(x, ts, isSigned(to), to)
	}
	if x.Sort == "nil" {
		z := e.g().zero(to, e.bv)
		return z
	}
	if _, ok := to.Underlying().(*types.Interface); ok && x.Sort != sObj {
		if x.T == nil {
			return e.errorf(n, "interface conversion of untyped term")
		}
		tag := e.g().Pre.tagOf(types.TypeString(x.T, func(p *types.Package) string { return "" }))
		ref, str := "0", "str_empty"
		switch x.Sort {
		case sInt:
			ref = x.S
		case sStr:
			str = x.S
		default:
			// other dynamic types: payload abstracted by an injection
			fn := "box$" + sanitize(x.Sort)
			e.g().Pre.add(fmt.Sprintf("(declare-fun %s (%s) Int)", fn, x.Sort))
			ref = app(fn, x.S)
		}
		if x.Sort == sInt {
			if _, isPtr := x.T.Underlying().(*types.Pointer); isPtr {
				// a nil pointer in an interface is not a nil interface, but the code base never does that
			}
		}
		return Term{S: fmt.Sprintf("(mkObj %d %s %s)", tag, ref, str), Sort: sObj, T: to}
	}
	if x.Sort != ts && x.Sort != "" {
		return e.errorf(n, "assignment sort mismatch %s -> %s (%v)", x.Sort, ts, to)
	}
	x.T = to
	return x
}

func sanitize(s string) string {
	return strings.Map(func(r rune) rune {
		if r >= 'a' && r <= 'z' || r >= 'A' && r <= 'Z' || r >= '0' && r <= '9' || r == '_' || r == '$' {
			return r
		}
		return '_'
	}, s)
}

// typeAssert evaluates x.(T), returning the value and the success condition.
func (e *Ev) typeAssert(n *ast.TypeAssertExpr) (Term, string) {
	x := e.ev(n.X)
	var to types.Type
	if e.spec {
		tt := e.ev(n.Type)
		to = tt.T
	} else {
		to = e.g().P.Info.Types[n.Type].Type
	}
	return e.assertTo(x, to, n)
}

func (e *Ev) evType(x ast.Expr) types.Type {
	if !e.spec {
		if tv, ok := e.g().P.Info.Types[x]; ok {
			return tv.Type
		}
	}
	switch n := x.(type) {
	case *ast.Ident:
		obj := e.lookupObj(n.Name)
		if tn, ok := obj.(*types.TypeName); ok {
			return tn.Type()
		}
	case *ast.StarExpr:
		if t := e.evType(n.X); t != nil {
			return types.NewPointer(t)
		}
	case *ast.ArrayType:
		if n.Len == nil {
			if t := e.evType(n.Elt); t != nil {
				return types.NewSlice(t)
			}
		}
	case *ast.ParenExpr:
		return e.evType(n.X)
	case *ast.MapType:
		k, v := e.evType(n.Key), e.evType(n.Value)
		if k != nil && v != nil {
			return types.NewMap(k, v)
		}
	}
	return nil
}

func (e *Ev) assertTo(x Term, to types.Type, n ast.Node) (Term, string) {
	if x.Sort != sObj {
		e.errorf(n, "type assertion on non-interface %s", x.Sort)
		return x, "true"
	}
	if to == nil {
		e.errorf(n, "type assertion: unknown type")
		return x, "true"
	}
	if iface, ok := to.Underlying().(*types.Interface); ok {
		// assertion to an interface type: succeeds for the implementers known to the package
		var conds []string
		for _, ct := range e.g().concreteTypes() {
			if types.Implements(ct, iface) {
				tag := e.g().Pre.tagOf(types.TypeString(ct, func(p *types.Package) string { return "" }))
				conds = append(conds, smtEq(app("otag", x.S), fmt.Sprint(tag)))
			}
		}
		r := x
		r.T = to
		return r, smtOr(conds...)
	}
	tag := e.g().Pre.tagOf(types.TypeString(to, func(p *types.Package) string { return "" }))
	ok := smtEq(app("otag", x.S), fmt.Sprint(tag))
	ts := e.sortOf(to)
	r := Term{Sort: ts, T: to, Signed: isSigned(to)}
	switch ts {
	case sInt:
		r.S = app("oref", x.S)
		if _, isPtr := to.Underlying().(*types.Pointer); isPtr {
			// no typed-nil pointer is ever stored in an interface by this package
			c := smtImp(ok, app(">", r.S, "0"))
			var used []string
			for _, qv := range e.qvars {
				name := qv[1:strings.Index(qv, " ")]
				if strings.Contains(c, name) {
					used = append(used, qv)
				}
			}
			intOnly := true
			for _, qv := range used {
				if !strings.HasSuffix(qv, " Int)") {
					intOnly = false
				}
			}
			if len(used) > 0 {
				c = fmt.Sprintf("(forall (%s) %s)", strings.Join(used, " "), c)
			}
			// a bound variable of an object sort ranges over all values, not only stored ones: the
			// fact is about stored interfaces, so it is not stated then
			if intOnly {
				e.define(c)
			}
		}
	case sStr:
		r.S = app("ostr", x.S)
	default:
		fn := "unbox$" + sanitize(ts)
		e.g().Pre.add(fmt.Sprintf("(declare-fun %s (Int) %s)", fn, ts))
		r.S = app(fn, app("oref", x.S))
	}
	return r, ok
}

// concreteTypes lists the named types of the package (and pointers to them) that may be
// stored in interfaces.
func (g *Gen) concreteTypes() []types.Type {
	var out []types.Type
	sc := g.P.Pkg.Types.Scope()
	for _, name := range sc.Names() {
		if tn, ok := sc.Lookup(name).(*types.TypeName); ok {
			if _, isIface := tn.Type().Underlying().(*types.Interface); isIface {
				continue
			}
			out = append(out, tn.Type(), types.NewPointer(tn.Type()))
		}
	}
	return out
}

// ---------- selectors, indexing ----------

func (e *Ev) fieldOf(x Term, st *types.Struct, sname string, fname string, n ast.Node) Term {
	for i := 0; i < st.NumFields(); i++ {
		f := st.Field(i)
		if f.Name() == fname {
			r := Term{S: app(e.g().fieldAcc(sname, fname), x.S), Sort: e.sortOf(f.Type()), T: f.Type(), Signed: isSigned(f.Type())}
			e.wfSlice(r)
			return r
		}
	}
	return e.errorf(n, "no field %s", fname)
}

func (e *Ev) selector(n *ast.SelectorExpr) Term {
	// package-qualified identifiers
	if id, ok := n.X.(*ast.Ident); ok {
		var obj types.Object
		if e.spec {
			obj = e.lookupObj(id.Name)
		} else {
			obj = e.g().P.Info.Uses[id]
		}
		if pn, ok := obj.(*types.PkgName); ok {
			o := pn.Imported().Scope().Lookup(n.Sel.Name)
			if o == nil {
				return e.errorf(n, "unknown %s.%s", id.Name, n.Sel.Name)
			}
			return e.objTerm(o, n)
		}
	}
	x := e.ev(n.X)
	if x.Loc != nil && x.S == "" {
		// pointer denoting a location: field through it
		base := e.load(x.Loc, n)
		return e.selectField(base, n.Sel.Name, n)
	}
	return e.selectField(x, n.Sel.Name, n)
}

func (e *Ev) selectField(x Term, name string, n ast.Node) Term {
	if x.T == nil {
		return e.errorf(n, "selector .%s on term of unknown type (%s)", name, x.S)
	}
	t := x.T
	if p, ok := t.Underlying().(*types.Pointer); ok {
		// implicit dereference
		loc := e.derefLoc(x, n)
		x = e.load(loc, n)
		t = p.Elem()
	}
	st, ok := t.Underlying().(*types.Struct)
	if !ok {
		return e.errorf(n, "selector .%s on non-struct %v", name, t)
	}
	return e.fieldOf(x, st, e.g().structName(t, e.bv), name, n)
}

// derefLoc gives the location a pointer term points to.
func (e *Ev) derefLoc(p Term, n ast.Node) *Loc {
	if p.Loc != nil {
		return p.Loc
	}
	if p.T == nil {
		e.errorf(n, "dereference of a term of unknown type (%s)", p.S)
		return &Loc{Kind: "var", Name: "?"}
	}
	pt, ok := p.T.Underlying().(*types.Pointer)
	if !ok {
		e.errorf(n, "dereference of non-pointer %v", p.T)
		return &Loc{Kind: "var", Name: "?"}
	}
	e.panicIf(smtEq(p.S, "0"), "nil dereference", n)
	return &Loc{Kind: "heap", Name: e.heapName(pt.Elem()), Ref: p.S, T: pt.Elem()}
}

func (e *Ev) heapName(t types.Type) string {
	s := e.sortOf(t)
	return "H$" + sanitize(s)
}

func (e *Ev) heap(name, sort string) string {
	if h, ok := e.st.heaps[name]; ok {
		return h.S
	}
	// first use on this path: the unit's initial heap
	h := e.u.initialHeap(name, sort)
	e.st.heaps[name] = h
	return h.S
}

func (e *Ev) elemHeap(elemSort string) string {
	name := "A$" + sanitize(elemSort)
	return e.heap(name, fmt.Sprintf("(Array Int (Array Int %s))", elemSort))
}

func (e *Ev) load(l *Loc, n ast.Node) Term {
	switch l.Kind {
	case "var":
		if t, ok := e.st.vars[l.Var]; ok {
			return t
		}
		return e.errorf(n, "variable %s unset", l.Name)
	case "heap":
		s := e.sortOf(l.T)
		h := e.heap(l.Name, fmt.Sprintf("(Array Int %s)", s))
		r := Term{S: app("select", h, l.Ref), Sort: s, T: l.T}
		e.typeInvAssume(r)
		return r
	case "elem":
		s := e.sortOf(l.T)
		h := e.elemHeap(s)
		return Term{S: app("select", app("select", h, l.Ref), l.Idx), Sort: s, T: l.T, Signed: isSigned(l.T)}
	case "field":
		base := e.load(l.Base, n)
		return e.selectField(base, l.Fld, n)
	case "mapelem":
		return e.mapLoad(l, n)
	}
	return e.errorf(n, "load of %s", l.Kind)
}

func (e *Ev) store(l *Loc, v Term, n ast.Node) {
	switch l.Kind {
	case "var":
		v = e.toType(v, l.T, n)
		e.st.vars[l.Var] = v
	case "heap":
		s := e.sortOf(l.T)
		h := e.heap(l.Name, fmt.Sprintf("(Array Int %s)", s))
		e.typeInvCheck(Term{S: v.S, Sort: s, T: l.T}, n)
		e.setHeap(l.Name, app("store", h, l.Ref, v.S), fmt.Sprintf("(Array Int %s)", s))
	case "elem":
		v = e.toType(v, l.T, n)
		s := e.sortOf(l.T)
		name := "A$" + sanitize(s)
		h := e.elemHeap(s)
		e.setHeap(name, app("store", h, l.Ref, app("store", app("select", h, l.Ref), l.Idx, v.S)), fmt.Sprintf("(Array Int (Array Int %s))", s))
	case "field":
		base := e.load(l.Base, n)
		bt := l.Base.T
		if p, ok := bt.Underlying().(*types.Pointer); ok {
			bt = p.Elem()
		}
		st, ok := bt.Underlying().(*types.Struct)
		if !ok {
			e.errorf(n, "field store into non-struct %v", bt)
			return
		}
		sname := e.g().structName(bt, e.bv)
		var args []string
		for i := 0; i < st.NumFields(); i++ {
			f := st.Field(i)
			if f.Name() == l.Fld {
				vv := e.toType(v, f.Type(), n)
				args = append(args, vv.S)
			} else {
				args = append(args, app(e.g().fieldAcc(sname, f.Name()), base.S))
			}
		}
		e.store(l.Base, Term{S: app("mk_"+sname, args...), Sort: sname, T: bt}, n)
	case "mapelem":
		e.mapStore(l, v, n)
	default:
		e.errorf(n, "store to %s", l.Kind)
	}
}

// setHeap replaces a heap by a new value, naming it to keep terms small.
func (e *Ev) setHeap(name, val, sort string) {
	nm := e.g().freshName(name)
	e.st.declare(nm, sort)
	e.define(smtEq(nm, val))
	e.st.heaps[name] = Term{S: nm, Sort: sort}
	e.u.noteWrite(name)
}

// nameTerm introduces a fresh constant equal to t when t is large.
func (e *Ev) nameTerm(t Term, hint string) Term {
	if len(t.S) < 160 || t.Sort == "" || t.Sort == "nil" || t.UConst != nil || e.spec || len(e.qvars) > 0 {
		return t
	}
	nm := e.g().freshName(hint)
	e.st.declare(nm, t.Sort)
	e.define(smtEq(nm, t.S))
	t.S = nm
	return t
}

func (e *Ev) lvalue(x ast.Expr) *Loc {
	switch n := x.(type) {
	case *ast.ParenExpr:
		return e.lvalue(n.X)
	case *ast.Ident:
		if n.Name == "_" {
			return &Loc{Kind: "blank"}
		}
		obj := e.g().P.Info.Uses[n]
		if obj == nil {
			obj = e.g().P.Info.Defs[n]
		}
		v, ok := obj.(*types.Var)
		if !ok {
			e.errorf(n, "lvalue %s is not a variable", n.Name)
			return nil
		}
		if loc, ok := e.st.boxed[v]; ok {
			return loc
		}
		return &Loc{Kind: "var", Var: v, Name: v.Name(), T: v.Type()}
	case *ast.SelectorExpr:
		xt := e.g().P.Info.Types[n.X].Type
		sel := e.g().P.Info.Selections[n]
		if sel == nil || sel.Kind() != types.FieldVal {
			e.errorf(n, "unsupported selector lvalue")
			return nil
		}
		if len(sel.Index()) != 1 {
			e.errorf(n, "embedded field path in lvalue")
			return nil
		}
		if _, isPtr := xt.Underlying().(*types.Pointer); isPtr {
			p := e.ev(n.X)
			base := e.derefLoc(p, n)
			return &Loc{Kind: "field", Base: base, Fld: n.Sel.Name, T: sel.Type()}
		}
		base := e.lvalue(n.X)
		if base == nil {
			return nil
		}
		return &Loc{Kind: "field", Base: base, Fld: n.Sel.Name, T: sel.Type()}
	case *ast.IndexExpr:
		xt := e.g().P.Info.Types[n.X].Type
		switch u := xt.Underlying().(type) {
		case *types.Slice:
			s := e.ev(n.X)
			i := e.evInt(n.Index)
			e.boundsCheck(i, app("slen", s.S), n)
			return &Loc{Kind: "elem", Ref: app("sarr", s.S), Idx: app("+", app("soff", s.S), i), T: u.Elem()}
		case *types.Map:
			m := e.ev(n.X)
			k := e.ev(n.Index)
			k = e.toType(k, u.Key(), n)
			return &Loc{Kind: "mapelem", Ref: m.S, Idx: k.S, T: u.Elem(), Name: e.mapHeapBase(u)}
		}
		e.errorf(n, "index lvalue on %v", xt)
		return nil
	case *ast.StarExpr:
		p := e.ev(n.X)
		return e.derefLoc(p, n)
	}
	e.errorf(x, "unsupported lvalue %T", x)
	return nil
}

// addrOf returns a pointer term for a location.
func (e *Ev) addrOf(l *Loc, n ast.Node) Term {
	if l.Kind == "heap" {
		return Term{S: l.Ref, Sort: sInt, T: types.NewPointer(l.T)}
	}
	return Term{S: "", Sort: sInt, T: types.NewPointer(l.T), Loc: l}
}

// evInt evaluates an index-like expression as a mathematical Int term.
func (e *Ev) evInt(x ast.Expr) string {
	t := e.ev(x)
	return e.asInt(t)
}

func (e *Ev) asInt(t Term) string {
	if t.UConst != nil {
		return e.coerce(t, sInt, true, nil).S
	}
	if t.Sort == sInt {
		return t.S
	}
	if isBV(t.Sort) {
		if lit, ok := bvLiteralValue(t.S); ok && (!t.Signed || lit < 1<<uint(bvWidth(t.Sort)-1)) {
			return fmt.Sprint(lit)
		}
		y := e.resizeBV(t, 64)
		return app("bv2i64", y)
	}
	e.errorf(nil, "expected integer, got %s", t.Sort)
	return "0"
}

func bvLiteralValue(s string) (uint64, bool) {
	if strings.HasPrefix(s, "#x") {
		v, err := strconv.ParseUint(s[2:], 16, 64)
		return v, err == nil
	}
	if strings.HasPrefix(s, "#b") {
		v, err := strconv.ParseUint(s[2:], 2, 64)
		return v, err == nil
	}
	return 0, false
}

// fromInt converts a mathematical Int term to the unit's Go-int representation.
func (e *Ev) fromInt(s string) Term {
	if e.bv {
		if lit, ok := intLiteral(s); ok {
			m := new(big.Int).Lsh(big.NewInt(1), 64)
			return Term{S: bvLit(new(big.Int).Mod(lit, m).Uint64(), 64), Sort: sBV64, T: types.Typ[types.Int], Signed: true}
		}
		return Term{S: app("i2bv64", s), Sort: sBV64, T: types.Typ[types.Int], Signed: true}
	}
	return Term{S: s, Sort: sInt, T: types.Typ[types.Int], Signed: true}
}

func (e *Ev) boundsCheck(i, length string, n ast.Node) {
	e.panicIf(smtOr(app("<", i, "0"), app(">=", i, length)), "index out of range", n)
}

func (e *Ev) index(n *ast.IndexExpr) Term {
	x := e.ev(n.X)
	if x.Sort == "type" {
		return e.errorf(n, "generic instantiation unsupported")
	}
	if x.T == nil {
		return e.errorf(n, "index on term of unknown type")
	}
	switch u := x.T.Underlying().(type) {
	case *types.Slice:
		i := e.evInt(n.Index)
		e.boundsCheck(i, app("slen", x.S), n)
		s := e.sortOf(u.Elem())
		h := e.elemHeap(s)
		idx := app("+", app("soff", x.S), i)
		sel := app("select", app("select", h, app("sarr", x.S)), idx)
		if e.spec && e.qindex != nil && strings.HasPrefix(i, "q$") && !strings.Contains(i, " ") {
			if !strings.Contains(x.S, i) {
				dup := false
				for _, c := range e.qindex[i] {
					if c[1] == sel {
						dup = true
					}
				}
				if !dup && len(e.qindex[i]) < 2 {
					e.qindex[i] = append(e.qindex[i], [2]string{app("soff", x.S), sel})
				}
			}
		}
		return Term{S: sel, Sort: s, T: u.Elem(), Signed: isSigned(u.Elem())}
	case *types.Map:
		k := e.toType(e.ev(n.Index), u.Key(), n)
		l := &Loc{Kind: "mapelem", Ref: x.S, Idx: k.S, T: u.Elem(), Name: e.mapHeapBase(u)}
		return e.mapLoad(l, n)
	case *types.Basic:
		if x.Sort == sStr {
			i := e.evInt(n.Index)
			e.boundsCheck(i, app("str_len", x.S), n)
			return Term{S: app("str_at", x.S, i), Sort: sBV8, T: types.Typ[types.Uint8]}
		}
	case *types.Array:
		i := e.evInt(n.Index)
		e.boundsCheck(i, fmt.Sprint(u.Len()), n)
		return Term{S: app("select", x.S, i), Sort: e.sortOf(u.Elem()), T: u.Elem(), Signed: isSigned(u.Elem())}
	}
	return e.errorf(n, "index on %v", x.T)
}

func (e *Ev) sliceExpr(n *ast.SliceExpr) Term {
	x := e.ev(n.X)
	lo, hi := "0", ""
	if n.Low != nil {
		lo = e.evInt(n.Low)
	}
	if x.Sort == sStr {
		if n.High != nil {
			hi = e.evInt(n.High)
		} else {
			hi = app("str_len", x.S)
		}
		e.panicIf(smtOr(app("<", lo, "0"), app("<", hi, lo), app(">", hi, app("str_len", x.S))), "slice bounds out of range", n)
		return Term{S: app("str_sub", x.S, lo, hi), Sort: sStr, T: x.T}
	}
	if x.Sort != sSlice {
		return e.errorf(n, "slice expression on %s", x.Sort)
	}
	if n.High != nil {
		hi = e.evInt(n.High)
	} else {
		hi = app("slen", x.S)
	}
	if n.Slice3 {
		return e.errorf(n, "3-index slice unsupported")
	}
	e.panicIf(smtOr(app("<", lo, "0"), app("<", hi, lo), app(">", hi, app("scap", x.S))), "slice bounds out of range", n)
	r := Term{Sort: sSlice, T: x.T}
	r.S = fmt.Sprintf("(mkSlice (sarr %s) (+ (soff %s) %s) (- %s %s) (- (scap %s) %s))", x.S, x.S, lo, hi, lo, x.S, lo)
	return e.nameTerm(r, "sl")
}

// ---------- composite literals, allocation ----------

func (e *Ev) compositeType(n *ast.CompositeLit) types.Type {
	if !e.spec {
		return e.g().P.Info.Types[n].Type
	}
	return e.evType(n.Type)
}

func (e *Ev) composite(n *ast.CompositeLit) Term {
	t := e.compositeType(n)
	if t == nil {
		return e.errorf(n, "composite literal of unknown type")
	}
	switch u := t.Underlying().(type) {
	case *types.Struct:
		return e.structLit(n, t, u)
	case *types.Slice:
		es := e.sortOf(u.Elem())
		var elems []Term
		for _, el := range n.Elts {
			if _, ok := el.(*ast.KeyValueExpr); ok {
				return e.errorf(n, "keyed slice literal unsupported")
			}
			var v Term
			if cl, ok := el.(*ast.CompositeLit); ok && cl.Type == nil && !e.spec {
				v = e.composite(cl) // go/types records the elided element type
			} else if ok && cl.Type == nil {
				v = e.errorf(n, "elided element type unsupported")
			} else {
				v = e.toType(e.ev(el), u.Elem(), n)
			}
			elems = append(elems, v)
		}
		arr := e.allocArray(es, len(elems), n)
		h := e.elemHeap(es)
		cur := app("select", h, arr)
		for i, v := range elems {
			cur = app("store", cur, fmt.Sprint(i), v.S)
		}
		if len(elems) > 0 {
			e.setHeap("A$"+sanitize(es), app("store", h, arr, cur), fmt.Sprintf("(Array Int (Array Int %s))", es))
		}
		return Term{S: fmt.Sprintf("(mkSlice %s 0 %d %d)", arr, len(elems), len(elems)), Sort: sSlice, T: t}
	case *types.Map:
		m := e.allocMap(u, n)
		for _, el := range n.Elts {
			kv := el.(*ast.KeyValueExpr)
			k := e.toType(e.ev(kv.Key), u.Key(), n)
			v := e.toType(e.ev(kv.Value), u.Elem(), n)
			e.mapStore(&Loc{Kind: "mapelem", Ref: m.S, Idx: k.S, T: u.Elem(), Name: e.mapHeapBase(u)}, v, n)
		}
		m.T = t
		return m
	}
	return e.errorf(n, "composite literal of %v", t)
}

func (e *Ev) structLit(n *ast.CompositeLit, t types.Type, st *types.Struct) Term {
	sname := e.g().structSort(t, e.bv)
	vals := make([]string, st.NumFields())
	for i := 0; i < st.NumFields(); i++ {
		vals[i] = e.g().zero(st.Field(i).Type(), e.bv).S
	}
	for i, el := range n.Elts {
		if kv, ok := el.(*ast.KeyValueExpr); ok {
			name := kv.Key.(*ast.Ident).Name
			found := false
			for j := 0; j < st.NumFields(); j++ {
				if st.Field(j).Name() == name {
					vals[j] = e.toType(e.ev(kv.Value), st.Field(j).Type(), n).S
					found = true
				}
			}
			if !found {
				return e.errorf(n, "no field %s in literal", name)
			}
		} else {
			vals[i] = e.toType(e.ev(el), st.Field(i).Type(), n).S
		}
	}
	if len(vals) == 0 {
		vals = []string{"0"}
	}
	return e.nameTerm(Term{S: app("mk_"+sname, vals...), Sort: sname, T: t}, "lit")
}

// freshRef allocates a reference distinct from every reference known so far.
func (e *Ev) freshRef(hint string) string {
	r := e.g().freshName("ref$" + hint)
	e.st.declare(r, sInt)
	e.define(app(">", r, "0"))
	e.g().Pre.addFresh()
	e.define(app("fresh$", r))
	for _, o := range e.st.allocs {
		e.define(smtNot(smtEq(r, o)))
	}
	e.notInHeaps(func(c string) string { return smtNot(smtEq(c, r)) })
	e.st.allocs = append(e.st.allocs, r)
	return r
}

func (e *Ev) allocStruct(cl *ast.CompositeLit) Term {
	v := e.composite(cl)
	r := e.freshRef(sanitize(v.Sort))
	e.store(&Loc{Kind: "heap", Name: e.heapName(v.T), Ref: r, T: v.T}, v, cl)
	return Term{S: r, Sort: sInt, T: types.NewPointer(v.T)}
}

func (e *Ev) allocArray(elemSort string, n int, node ast.Node) string {
	return e.freshRef("arr")
}

func (e *Ev) funcLit(n *ast.FuncLit) Term {
	r := e.freshRef("clo")
	t := e.g().P.Info.Types[n].Type
	clo := &Closure{Lit: n, Env: e.st, Unit: e.u}
	e.checkCaptures(n)
	return Term{S: r, Sort: sInt, T: t, Clo: clo}
}

func (e *Ev) bytesOfString(x Term, to types.Type, n ast.Node) Term {
	arr := e.freshRef("bytes")
	h := e.elemHeap(sBV8)
	// contents: forall i. 0<=i<len ==> a[i] == str_at(x,i)
	ln := app("str_len", x.S)
	e.define(fmt.Sprintf("(forall ((i Int)) (! (=> (and (<= 0 i) (< i %s)) (= (select (select %s %s) i) (str_at %s i))) :pattern ((select (select %s %s) i))))", ln, h, arr, x.S, h, arr))
	e.define(app(">=", ln, "0"))
	return Term{S: fmt.Sprintf("(mkSlice %s 0 %s %s)", arr, ln, ln), Sort: sSlice, T: to}
}

// define records a constraint that only introduces/defines fresh constants: valid on every path.
func (e *Ev) define(c string) {
	e.u.defs = append(e.u.defs, c)
}

// assumeQ assumes a fact; inside spec quantifiers it is closed over the bound variables.
func (e *Ev) assumeQ(c string) {
	if c == "true" {
		return
	}
	if len(e.qvars) > 0 {
		c = fmt.Sprintf("(forall (%s) %s)", strings.Join(e.qvars, " "), c)
	}
	e.st.assume(c)
}

// hardOp: multiplication and division on wide bit-vectors are kept abstract (uninterpreted but
// named after the operator) in proof queries: code and contract use the same Go operator, so
// congruence suffices, and bit-blasting two 32-bit multipliers does not terminate. The
// counterexample search reinstates the real operators.
func (e *Ev) hardOp(op string, sort string) string {
	w := bvWidth(sort)
	name := fmt.Sprintf("go_%s%d", op, w)
	e.g().Pre.add(fmt.Sprintf("(declare-fun %s (%s %s) %s)", name, sort, sort, sort))
	return name
}

// wfSlice: every Go slice value is well-formed (0 <= len <= cap, offset >= 0). Assumed for slice
// values read out of structures.
func (e *Ev) wfSlice(t Term) {
	if t.Sort != sSlice || e.st == nil {
		return
	}
	c := fmt.Sprintf("(and (<= 0 (slen %s)) (<= (slen %s) (scap %s)) (<= 0 (soff %s)))", t.S, t.S, t.S, t.S)
	if e.wfSeen == nil {
		e.wfSeen = map[string]bool{}
	}
	for _, h := range e.st.pc {
		if h == c {
			return
		}
	}
	var used []string
	for _, qv := range e.qvars {
		name := qv[1:strings.Index(qv, " ")]
		if strings.Contains(t.S, name) {
			used = append(used, qv)
		}
	}
	if len(used) > 0 {
		c = fmt.Sprintf("(forall (%s) %s)", strings.Join(used, " "), c)
	}
	e.st.assume(c)
}

// Type invariants (`typeinv T` / `def <expr over self>`): a predicate on the struct value that
// holds for every object of the type in the heap. Assumed when an object is read, proved when one
// is written.
func (e *Ev) typeInvBlock(t types.Type) *Block {
	name := e.g().namedName(t)
	if name == "" {
		return nil
	}
	return e.g().C.byID["typeinv:"+name]
}

func (e *Ev) typeInvTerm(b *Block, v Term) string {
	defs := b.clauses("def")
	if len(defs) != 1 {
		e.errorf(nil, "typeinv %s needs one def clause", b.Target)
		return "true"
	}
	se := *e
	se.spec = true
	se.quiet = true
	se.bound = map[string]Term{}
	for k, x := range e.bound {
		se.bound[k] = x
	}
	se.bound["self"] = v
	return se.specExpr(defs[0].Text).S
}

func (e *Ev) typeInvAssume(v Term) {
	b := e.typeInvBlock(v.T)
	if b == nil || e.inTypeInv {
		return
	}
	e.inTypeInv = true
	c := e.typeInvTerm(b, v)
	e.inTypeInv = false
	if e.u.tinvDone == nil {
		e.u.tinvDone = map[string]bool{}
	}
	if e.u.tinvDone[c] {
		return
	}
	e.u.tinvDone[c] = true
	var used []string
	for _, qv := range e.qvars {
		name := qv[1:strings.Index(qv, " ")]
		if strings.Contains(c, name) {
			used = append(used, qv)
		}
	}
	if len(used) > 0 {
		c = fmt.Sprintf("(forall (%s) %s)", strings.Join(used, " "), c)
	}
	e.define(c)
	e.g().Assumed["type invariant of "+b.Target+" holds for every object in the heap (proved at every store in the verified units)"] = true
}

func (e *Ev) typeInvCheck(v Term, n ast.Node) {
	b := e.typeInvBlock(v.T)
	if b == nil || e.spec || e.quiet {
		return
	}
	e.inTypeInv = true
	c := e.typeInvTerm(b, v)
	e.inTypeInv = false
	e.u.addObl(fmt.Sprintf("%s/typeinv:%s@%s", e.u.contractID(), b.Target, e.u.siteID(n)), e.u.props, e.st, smtImp(e.guardCond(), c), "type invariant of "+b.Target+" preserved by this store", nil)
}

package main

import (
	"encoding/json"
	"fmt"
	"os"
	"os/exec"
	"path/filepath"
	"sort"
	"strings"
)

// govc selftest [ids...]: the must-fail corpus. Every seeded mutation under /verif/seeded
// (a patch that compiles, passes the repository's own suite and breaks one property) is applied
// to a scratch copy of the working tree outside /repo and /verif; the check of its property must
// then exit 1 with a VIOLATION line (mutations listed as "missed" in seeded/expected.json are
// reported but tolerated). Known findings are canaries: with the known-findings file ignored
// their obligations must fire on the unchanged tree.
func runSelftest(args []string) int {
	vd := verifDir()
	repo := os.Getenv("VERIF_REPO")
	if repo == "" {
		repo = "/repo"
	}
	scratch := os.Getenv("VERIF_SCRATCH")
	if scratch == "" {
		scratch = "/var/tmp/govc-scratch"
	}
	want := map[string]bool{}
	for _, a := range args {
		want[a] = true
	}
	expected := map[string]string{}
	if b, err := os.ReadFile(filepath.Join(vd, "seeded", "expected.json")); err == nil {
		json.Unmarshal(b, &expected)
	}
	self, _ := os.Executable()
	dirs, _ := filepath.Glob(filepath.Join(vd, "seeded", "*_[mnpq][0-9]*"))
	sort.Strings(dirs)
	bad := 0
	for _, d := range dirs {
		name := filepath.Base(d)
		id := name[:strings.Index(name, "_")]
		if len(want) > 0 && !want[id] && !want[name] {
			continue
		}
		os.RemoveAll(scratch)
		if out, err := exec.Command("bash", "-c", fmt.Sprintf("mkdir -p %s && cd %s && git ls-files -z | xargs -0 cp --parents -t %s && cd %s && patch -s -p1 < %s/patch.diff", scratch, repo, scratch, scratch, d)).CombinedOutput(); err != nil {
			fmt.Printf("%-8s SKIP   patch does not apply to the current tree (%s)\n", name, strings.TrimSpace(strings.Split(string(out), "\n")[0]))
			os.RemoveAll(scratch)
			continue
		}
		cmd := exec.Command(self, "check", id)
		cmd.Env = append(os.Environ(), "VERIF_REPO="+scratch, "VERIF_NOEVIDENCE=1")
		out, _ := cmd.CombinedOutput()
		code := cmd.ProcessState.ExitCode()
		os.RemoveAll(scratch)
		var first string
		for _, l := range strings.Split(string(out), "\n") {
			if strings.HasPrefix(l, "VIOLATION") {
				if i := strings.Index(l, "obligation="); i >= 0 {
					first = l[i+len("obligation="):]
				}
				break
			}
		}
		switch {
		case code == 1 && first != "":
			fmt.Printf("%-8s CAUGHT %s\n", name, first)
		case expected[name] == "missed":
			fmt.Printf("%-8s MISSED (recorded as not caught in seeded/expected.json)\n", name)
		default:
			fmt.Printf("%-8s FAIL   exit=%d, no violation reported\n", name, code)
			bad++
		}
	}
	// canaries
	for _, k := range loadKnown(filepath.Join(vd, "known_findings.txt")) {
		if k.Kind != "known" || (len(want) > 0 && !want[k.Prop]) {
			continue
		}
		cmd := exec.Command(self, "check", k.Prop, "--ignore-known")
		cmd.Env = append(os.Environ(), "VERIF_NOEVIDENCE=1")
		out, _ := cmd.CombinedOutput()
		if strings.Contains(string(out), "obligation="+k.Obligation+" ") || strings.Contains(string(out), "obligation="+k.Obligation+"\n") {
			fmt.Printf("canary   FIRES  %s %s\n", k.Prop, k.Obligation)
		} else {
			fmt.Printf("canary   FAIL   %s %s did not fire with the known-findings file ignored\n", k.Prop, k.Obligation)
			bad++
		}
	}
	if bad > 0 {
		return 1
	}
	return 0
}

package main

import (
	"fmt"
	"go/ast"
	"go/token"
	"go/types"
	"strings"
)

// Rule is one peephole rule extracted from the AST of (*compiler).doOptimize.
type Rule struct {
	Ord     int
	Window  []string          // opcode constant names, in order
	Guards  []ast.Expr        // extra operand conditions (e.g. in[n].A == in[n+2].A)
	Repl    map[string]ast.Expr // fields of the emitted instruction
	Advance int               // n += Advance in the body
	Clause  *ast.CaseClause
	Default bool
}

func (r *Rule) Name() string {
	code := "?"
	if c, ok := r.Repl["Code"]; ok {
		if id, ok := c.(*ast.Ident); ok {
			code = id.Name
		}
	}
	return "rule[" + strings.Join(r.Window, ",") + "->" + code + "]"
}

// extractRules reads the rule table off the tagless switch in doOptimize. Anything it cannot
// interpret is an error (a new kind of rule needs engine support, never silently skipped).
func (g *Gen) extractRules() []*Rule {
	fd := g.P.Funcs["(*compiler).doOptimize"]
	if fd == nil {
		g.errorf("rules: (*compiler).doOptimize not found")
		return nil
	}
	lenAliases = map[string]bool{}
	assigned := map[string]int{}
	ast.Inspect(fd.Body, func(n ast.Node) bool {
		if as, ok := n.(*ast.AssignStmt); ok {
			for _, l := range as.Lhs {
				if id, ok := l.(*ast.Ident); ok {
					assigned[id.Name]++
				}
			}
			if as.Tok == token.DEFINE && len(as.Lhs) == 1 && len(as.Rhs) == 1 {
				if id, ok := as.Lhs[0].(*ast.Ident); ok {
					if c, ok := as.Rhs[0].(*ast.CallExpr); ok && len(c.Args) == 1 {
						if f, ok := c.Fun.(*ast.Ident); ok && f.Name == "len" {
							if a, ok := c.Args[0].(*ast.Ident); ok && a.Name == "in" {
								lenAliases[id.Name] = true
							}
						}
					}
				}
			}
		}
		return true
	})
	for name := range lenAliases {
		if assigned[name] != 1 {
			delete(lenAliases, name) // reassigned later: not a pure alias of len(in)
		}
	}
	var sw *ast.SwitchStmt
	ast.Inspect(fd.Body, func(n ast.Node) bool {
		if s, ok := n.(*ast.SwitchStmt); ok && sw == nil {
			sw = s
			return false
		}
		return true
	})
	if sw == nil || sw.Tag != nil {
		g.errorf("rules: doOptimize has no tagless switch")
		return nil
	}
	var rules []*Rule
	for ord, c := range sw.Body.List {
		cc := c.(*ast.CaseClause)
		r := &Rule{Ord: ord, Repl: map[string]ast.Expr{}, Clause: cc}
		if cc.List == nil {
			r.Default = true
			rules = append(rules, r)
			continue
		}
		if len(cc.List) != 1 {
			g.errorf("rules: case %d has several expressions", ord)
			continue
		}
		// flatten the conjunction
		var conj []ast.Expr
		var flat func(e ast.Expr)
		flat = func(e ast.Expr) {
			if p, ok := e.(*ast.ParenExpr); ok {
				flat(p.X)
				return
			}
			if b, ok := e.(*ast.BinaryExpr); ok && b.Op == token.LAND {
				flat(b.X)
				flat(b.Y)
				return
			}
			conj = append(conj, e)
		}
		flat(cc.List[0])
		window := map[int]string{}
		size := -1
		for _, e := range conj {
			b, ok := e.(*ast.BinaryExpr)
			if !ok {
				if _, isCall := e.(*ast.CallExpr); isCall {
					r.Guards = append(r.Guards, e)
					continue
				}
				g.errorf("rules: case %d: unsupported guard", ord)
				continue
			}
			// n < len(in)-K   |   n < len(in)
			if b.Op == token.LSS {
				if id, ok := b.X.(*ast.Ident); ok && id.Name == "n" {
					k, ok := lenInMinus(b.Y)
					if !ok {
						g.errorf("rules: case %d: unsupported bound", ord)
					}
					size = k + 1
					continue
				}
			}
			if b.Op == token.EQL {
				if idx, fld, ok := inField(b.X); ok && fld == "Code" {
					if id, ok := b.Y.(*ast.Ident); ok {
						window[idx] = id.Name
						continue
					}
				}
			}
			r.Guards = append(r.Guards, e)
		}
		if size < 0 {
			g.errorf("rules: case %d: no window bound", ord)
			continue
		}
		for i := 0; i < size; i++ {
			c, ok := window[i]
			if !ok {
				g.errorf("rules: case %d: window position %d has no opcode test", ord, i)
			}
			r.Window = append(r.Window, c)
		}
		if len(window) != size {
			g.errorf("rules: case %d: opcode tests outside the bounded window", ord)
		}
		// body: out = append(out, instruction{...}) ; n += K
		for _, s := range cc.Body {
			switch st := s.(type) {
			case *ast.AssignStmt:
				if st.Tok == token.ADD_ASSIGN {
					if id, ok := st.Lhs[0].(*ast.Ident); ok && id.Name == "n" {
						if lit, ok := st.Rhs[0].(*ast.BasicLit); ok {
							fmt.Sscanf(lit.Value, "%d", &r.Advance)
							continue
						}
					}
				}
				if st.Tok == token.ASSIGN && len(st.Rhs) == 1 {
					if call, ok := st.Rhs[0].(*ast.CallExpr); ok && len(call.Args) == 2 {
						if cl, ok := call.Args[1].(*ast.CompositeLit); ok {
							for _, el := range cl.Elts {
								kv := el.(*ast.KeyValueExpr)
								r.Repl[kv.Key.(*ast.Ident).Name] = kv.Value
							}
							continue
						}
					}
				}
				g.errorf("rules: case %d: unsupported body statement", ord)
			default:
				g.errorf("rules: case %d: unsupported body statement %T", ord, s)
			}
		}
		rules = append(rules, r)
	}
	return rules
}

// lenAliases: locals of doOptimize defined once as `x := len(in)` (a hoisted length)
var lenAliases = map[string]bool{}

func lenInMinus(e ast.Expr) (int, bool) {
	if c, ok := e.(*ast.CallExpr); ok {
		if id, ok := c.Fun.(*ast.Ident); ok && id.Name == "len" {
			return 0, true
		}
	}
	if id, ok := e.(*ast.Ident); ok && lenAliases[id.Name] {
		return 0, true
	}
	if b, ok := e.(*ast.BinaryExpr); ok && b.Op == token.SUB {
		if _, ok := lenInMinus(b.X); ok {
			if lit, ok := b.Y.(*ast.BasicLit); ok {
				k := 0
				fmt.Sscanf(lit.Value, "%d", &k)
				return k, true
			}
		}
	}
	return 0, false
}

// inField recognises in[n+K].F / in[n].F
func inField(e ast.Expr) (int, string, bool) {
	sel, ok := e.(*ast.SelectorExpr)
	if !ok {
		return 0, "", false
	}
	ix, ok := sel.X.(*ast.IndexExpr)
	if !ok {
		return 0, "", false
	}
	if id, ok := ix.X.(*ast.Ident); !ok || id.Name != "in" {
		return 0, "", false
	}
	switch i := ix.Index.(type) {
	case *ast.Ident:
		if i.Name == "n" {
			return 0, sel.Sel.Name, true
		}
	case *ast.BinaryExpr:
		if id, ok := i.X.(*ast.Ident); ok && id.Name == "n" && i.Op == token.ADD {
			if lit, ok := i.Y.(*ast.BasicLit); ok {
				k := 0
				fmt.Sscanf(lit.Value, "%d", &k)
				return k, sel.Sel.Name, true
			}
		}
	}
	return 0, "", false
}

// ruleExpr translates an operand expression of a rule (in[n+i].F, -x, joinParams(a,b), literals,
// ==) over the symbolic window operands.
func (e *Ev) ruleExpr(x ast.Expr, win []map[string]Term) Term {
	switch n := x.(type) {
	case *ast.ParenExpr:
		return e.ruleExpr(n.X, win)
	case *ast.SelectorExpr:
		if i, f, ok := inField(n); ok && i < len(win) {
			return win[i][f]
		}
	case *ast.UnaryExpr:
		if n.Op == token.SUB {
			t := e.ruleExpr(n.X, win)
			return Term{S: app("-", t.S), Sort: sInt, T: t.T, Signed: true}
		}
	case *ast.BasicLit:
		return e.coerce(e.lit(n), sInt, true, types.Typ[types.Int])
	case *ast.Ident:
		if obj := e.g().P.Pkg.Types.Scope().Lookup(n.Name); obj != nil {
			return e.objTerm(obj, n)
		}
	case *ast.BinaryExpr:
		a := e.ruleExpr(n.X, win)
		b := e.ruleExpr(n.Y, win)
		return e.binop(n.Op, a, b, n)
	case *ast.CallExpr:
		if id, ok := n.Fun.(*ast.Ident); ok {
			if fn, ok := e.g().P.Pkg.Types.Scope().Lookup(id.Name).(*types.Func); ok {
				var args []Term
				for _, a := range n.Args {
					args = append(args, e.ruleExpr(a, win))
				}
				return e.callStatic(fn, nil, args, n)
			}
		}
	}
	return e.errorf(x, "rule operand expression not understood")
}

package main

import (
	"os"
	"fmt"
	"regexp"
	"sort"
	"go/ast"
	"go/token"
	"go/types"
	"math"
	"strings"
)

func mathFloat64bits(f float64) uint64 { return math.Float64bits(f) }
func mathFloat64frombits(b uint64) float64 { return math.Float64frombits(b) }

// boxedVars: local variables whose address is taken (&x, pointer-receiver method call on x)
// or which are captured and assigned by function literals.
func (g *Gen) boxedVars() map[*types.Var]bool {
	if g.boxed != nil {
		return g.boxed
	}
	g.boxed = map[*types.Var]bool{}
	for _, f := range g.P.Pkg.Syntax {
		ast.Inspect(f, func(n ast.Node) bool {
			switch x := n.(type) {
			case *ast.UnaryExpr:
				if x.Op == token.AND {
					if id, ok := x.X.(*ast.Ident); ok {
						if v, ok := g.P.Info.Uses[id].(*types.Var); ok && !v.IsField() {
							g.boxed[v] = true
						}
					}
				}
			case *ast.CallExpr:
				if sel, ok := x.Fun.(*ast.SelectorExpr); ok {
					if s := g.P.Info.Selections[sel]; s != nil && s.Kind() == types.MethodVal {
						sig := s.Obj().Type().(*types.Signature)
						if _, wantPtr := sig.Recv().Type().Underlying().(*types.Pointer); wantPtr {
							if id, ok := sel.X.(*ast.Ident); ok {
								if v, ok := g.P.Info.Uses[id].(*types.Var); ok {
									if _, isPtr := v.Type().Underlying().(*types.Pointer); !isPtr {
										g.boxed[v] = true
									}
								}
							}
						}
					}
				}
			case *ast.FuncLit:
				// variables declared outside and assigned inside
				ast.Inspect(x.Body, func(m ast.Node) bool {
					mark := func(e ast.Expr) {
						if id, ok := e.(*ast.Ident); ok {
							if v, ok := g.P.Info.Uses[id].(*types.Var); ok && !(v.Pos() >= x.Pos() && v.Pos() < x.End()) && v.Parent() != g.P.Pkg.Types.Scope() {
								g.boxed[v] = true
							}
						}
					}
					switch s := m.(type) {
					case *ast.AssignStmt:
						for _, l := range s.Lhs {
							mark(l)
						}
					case *ast.IncDecStmt:
						mark(s.X)
					}
					return true
				})
			}
			return true
		})
	}
	return g.boxed
}

// newUnit prepares a unit for a function declaration (or a part of it).
func (g *Gen) newUnit(name string, fd *ast.FuncDecl, b *Block) *Unit {
	u := &Unit{g: g, name: name, fd: fd, block: b, inits: map[string]Term{}, panicN: map[token.Pos]int{}, whyN: map[string]int{}}
	if b != nil {
		u.props = b.Props
		if m, ok := b.flag("intmode"); ok && m == "bv" {
			u.bv = true
		}
	}
	if fd != nil && fd.Name != nil {
		obj := g.P.Info.Defs[fd.Name].(*types.Func)
		u.sig = obj.Type().(*types.Signature)
		u.bodyPos = fd.Body.Lbrace + 1
	}
	return u
}

func (u *Unit) freshParam(st *State, v *types.Var) Term {
	s := u.g.sortOf(v.Type(), u.bv)
	nm := u.g.freshName(v.Name())
	st.declare(nm, s)
	t := Term{S: nm, Sort: s, T: v.Type(), Signed: isSigned(v.Type())}
	st.vars[v] = t
	u.inputs = append(u.inputs, ModelVar{Name: v.Name(), Term: nm})
	u.g.Pre.addFresh()
	for _, c := range u.g.refComponents(nm, v.Type(), u.bv, 0) {
		u.defs = append(u.defs, app("not", app("fresh$", c)))
	}
	// the elements of a parameter that is a slice of references exist before the unit runs
	if sl, ok := v.Type().Underlying().(*types.Slice); ok {
		switch sl.Elem().Underlying().(type) {
		case *types.Pointer, *types.Interface:
			e := &Ev{u: u, st: st, bv: u.bv, bound: map[string]Term{}}
			e.elemHeap(e.sortOf(sl.Elem()))
			if f := e.elemRefFact(nm, v.Type(), "", func(c string) string { return app("not", app("fresh$", c)) }); f != "" {
				u.defs = append(u.defs, f)
			}
		}
	}
	return t
}

func (u *Unit) entryState() *State {
	st := &State{vars: map[types.Object]Term{}, named: map[string]Term{}, heaps: map[string]Term{}, decls: &u.decls, boxed: map[types.Object]*Loc{}}
	if u.sig.Recv() != nil {
		t := u.freshParam(st, u.sig.Recv())
		if _, ok := u.sig.Recv().Type().Underlying().(*types.Pointer); ok {
			st.assume(app(">", t.S, "0"))
		}
	}
	for i := 0; i < u.sig.Params().Len(); i++ {
		u.freshParam(st, u.sig.Params().At(i))
	}
	return st
}

// well-formedness assumptions on slices reachable from parameters (len/cap non-negative)
func (u *Unit) assumeWF(st *State) {
	for _, t := range st.vars {
		if t.Sort == sSlice {
			st.assume(fmt.Sprintf("(and (<= 0 (slen %s)) (<= (slen %s) (scap %s)) (<= 0 (soff %s)))", t.S, t.S, t.S, t.S))
		}
	}
}

// verifyFunc generates the obligations of a whole function against its contract.
func (g *Gen) verifyFunc(key string) {
	fd := g.P.Funcs[key]
	b := g.C.forFunc(key)
	if fd == nil {
		g.errorf("contract for %s: no such function in the package", key)
		return
	}
	if fd.Body == nil {
		g.errorf("%s has no body", key)
		return
	}
	u := g.newUnit(key, fd, b)
	g.Funcs[key] = true
	st := u.entryState()
	u.assumeWF(st)
	u.entry = st.clone()
	u.runBody(st, fd.Body.List)
}

func (u *Unit) runBody(st *State, body []ast.Stmt) {
	b := u.block
	g := u.g
	// requires
	var reqTexts []string
	for _, c := range b.clauses("requires") {
		e := u.specEv(st, u.bodyPos)
		t := e.evSpec(c.Text)
		st.assume(t.S)
		u.entry.assume(t.S)
		if c.Name != "" {
			if u.invTag == nil {
				u.invTag = map[string]string{}
			}
			u.invTag[t.S] = "requires#" + c.Name
		}
		reqTexts = append(reqTexts, c.Text)
	}
	// user axioms (`axiom NAME` / `def <closed formula>`), requested with `axioms NAME`
	for _, n := range strings.Fields(b.Flags["axioms"]) {
		if ab := g.C.byID["axiom:"+n]; ab != nil {
			for _, c := range ab.clauses("def") {
				e := u.specEv(st, u.bodyPos)
				t := e.evSpec(c.Text)
				u.defs = append(u.defs, t.S)
				u.tagDef(t.S, n)
				g.Assumed["axiom "+n+" (definitional property of a ghost predicate): "+c.Text] = true
			}
			// raw SMT-LIB: `decl (declare-fun ...)` and `smt <closed formula>` (facts about ghost
			// functions over sorts that have no Go type, e.g. whole backing arrays)
			for _, c := range ab.clauses("decl") {
				// the struct sorts a declaration mentions must be declared before it
				for _, w := range strings.FieldsFunc(c.Text, func(r rune) bool { return r == '(' || r == ')' || r == ' ' }) {
					if tn, ok := g.P.Pkg.Types.Scope().Lookup(w).(*types.TypeName); ok {
						g.sortOf(tn.Type(), false)
					}
				}
				g.Pre.add(c.Text)
			}
			for _, c := range ab.clauses("smt") {
				u.defs = append(u.defs, c.Text)
				u.tagDef(c.Text, n)
				g.Assumed["axiom "+n+" (assumed fact about a ghost function, raw SMT): "+c.Text] = true
			}
		}
	}
	// `assumes` clauses: facts the unit relies on that no caller is asked to establish (reported)
	for _, c := range b.clauses("assumes") {
		e := u.specEv(st, u.bodyPos)
		t := e.evSpec(c.Text)
		st.assume(t.S)
		u.entry.assume(t.S)
		g.Assumed["assumed in "+u.name+" (no caller obligation): "+c.Text] = true
	}
	// vacuity guard: the precondition must be satisfiable
	cov := u.addObl(u.contractID()+"/cover", u.props, st, "false", "requires satisfiable: "+strings.Join(reqTexts, " && "), nil)
	cov.Cover = true
	// named results
	u.resVars = nil
	if u.sig != nil {
		for i := 0; i < u.sig.Results().Len(); i++ {
			rv := u.sig.Results().At(i)
			if rv.Name() != "" && rv.Name() != "_" {
				st.vars[rv] = g.zero(rv.Type(), u.bv)
				u.resVars = append(u.resVars, rv)
			}
		}
	}
	flow := Flow{
		ret: func(s *State, r []Term) {
			u.exits = append(u.exits, &Exit{st: s, results: r, fromCase: u.inCase})
		},
	}
	flow.next = func(s *State) {
		var r []Term
		for _, rv := range u.resVars {
			r = append(r, s.vars[rv])
		}
		flow.ret(s, r)
	}
	u.execList(body, st, flow)
	u.runHandler(flow)
	u.finish()
}

func isRecoverHandler(ds *ast.DeferStmt) bool {
	fl, ok := ds.Call.Fun.(*ast.FuncLit)
	if !ok {
		return false
	}
	// exactly: func() { if r := recover(); r != nil { ... } }()
	if len(fl.Body.List) != 1 {
		return false
	}
	ifs, ok := fl.Body.List[0].(*ast.IfStmt)
	if !ok || ifs.Else != nil || ifs.Init == nil {
		return false
	}
	as, ok := ifs.Init.(*ast.AssignStmt)
	if !ok || len(as.Lhs) != 1 || len(as.Rhs) != 1 {
		return false
	}
	call, ok := as.Rhs[0].(*ast.CallExpr)
	if !ok {
		return false
	}
	if id, ok := call.Fun.(*ast.Ident); !ok || id.Name != "recover" {
		return false
	}
	cond, ok := ifs.Cond.(*ast.BinaryExpr)
	if !ok || cond.Op != token.NEQ {
		return false
	}
	return true
}

// finish emits the exit obligations of the unit.
func (u *Unit) finish() {
	b := u.block
	var resNames []string
	if u.sig != nil {
		for i := 0; i < u.sig.Results().Len(); i++ {
			resNames = append(resNames, u.sig.Results().At(i).Name())
		}
	}
	if u.resNamesOverride != nil {
		resNames = u.resNamesOverride
	}
	endPos := u.bodyPos
	if u.closureLit != nil {
		endPos = u.closureLit.Body.Rbrace - 1
	} else if u.fd != nil && u.fd.Body != nil && u.caseClause == nil {
		endPos = u.fd.Body.Rbrace - 1 // top-level locals of the body are in scope for postconditions
	}
	for i, c := range b.clauses("ensures") {
		var parts []string
		for _, ex := range u.exits {
			e := u.specEv(ex.st, endPos)
			e.results = ex.results
			e.resNames = resNames
			t := e.evSpec(c.Text)
			parts = append(parts, pathImp(u.filterPC(b, c.Name, ex.st.pc), t.S))
		}
		name := c.Name
		if name == "" {
			name = fmt.Sprint(i)
		}
		if hasFlag(b, "splitpaths") && len(parts) > 1 {
			// one obligation per exit path (smaller queries for quantifier-heavy postconditions)
			for k, p := range parts {
				o := u.addMerged(fmt.Sprintf("%s/ensures#%s@exit%d", u.contractID(), name, k), clauseProps(b, c), []string{p}, c.Text)
				o.Inputs = append(append([]ModelVar{}, u.inputs...), u.g.replayInputs(u)...)
			}
			continue
		}
		o := u.addMerged(fmt.Sprintf("%s/ensures#%s", u.contractID(), name), clauseProps(b, c), parts, c.Text)
		o.dropAxioms = u.axiomsNotUsed(b, c.Name)
		o.Inputs = append(append([]ModelVar{}, u.inputs...), u.g.replayInputs(u)...)
	}
	// panic clauses
	_, nopanic := b.flag("nopanic")
	iff := b.clauses("panics_iff")
	switch {
	case nopanic || len(iff) > 0:
		byWhy := map[string][]string{}
		var order []string
		for _, p := range u.panics {
			var goal string
			if nopanic {
				goal = smtNot(p.cond)
			} else {
				e := u.specEv(u.entry, u.bodyPos)
				goal = smtImp(p.cond, e.evSpec(iff[0].Text).S)
			}
			k := p.why
			if os.Getenv("VERIF_PANICSITES") == "1" {
				k += "@" + p.pos // debugging aid: one obligation per panic site
			}
			if _, ok := byWhy[k]; !ok {
				order = append(order, k)
			}
			byWhy[k] = append(byWhy[k], pathImp(p.pc, goal))
		}
		for _, k := range order {
			kind := "nopanic"
			if !nopanic {
				kind = "panics_only_if"
			}
			props := u.props
			if len(iff) > 0 {
				props = clauseProps(b, iff[0])
			}
			o := u.addMerged(fmt.Sprintf("%s/%s:%s", u.contractID(), kind, strings.ReplaceAll(k, " ", "-")), props, byWhy[k], kind+" ("+k+")")
			o.Inputs = append(append([]ModelVar{}, u.inputs...), u.g.replayInputs(u)...)
		}
		if len(iff) > 0 {
			// at every normal exit the panic condition is false
			var parts []string
			for _, ex := range u.exits {
				e := u.specEv(u.entry, u.bodyPos)
				parts = append(parts, pathImp(ex.st.pc, smtNot(e.evSpec(iff[0].Text).S)))
			}
			o := u.addMerged(fmt.Sprintf("%s/panics_if", u.contractID()), clauseProps(b, iff[0]), parts, "normal exit implies !("+iff[0].Text+")")
			o.Inputs = append(append([]ModelVar{}, u.inputs...), u.g.replayInputs(u)...)
		}
	}
	// frame: what is written outside the modifies clause is unchanged on pre-existing objects
	if len(b.clauses("modifies")) > 0 || hasFlag(b, "pure") || hasFlag(b, "frame") {
		u.frameObligations(b, u.exits, u.entry, u.bodyPos, u.contractID())
	}
}

// frameFormula states, for a state st, that every pre-existing object outside the modifies
// clause of b is unchanged since entry (nil if the clause allows everything).
func (u *Unit) frameFormula(b *Block, st *State, entry *State, pos token.Pos) []string {
	allowedAll := map[string]bool{}
	except := map[string][]string{}
	for _, c := range b.clauses("modifies") {
		for _, item := range splitTopSpaces(c.Text) {
			if item == "*" {
				return nil
			}
			if strings.HasPrefix(item, "allbut(") {
				keep := map[string]bool{}
				for _, k := range strings.Split(item[7:len(item)-1], ",") {
					keep[strings.TrimSpace(k)] = true
				}
				for h := range st.heaps {
					if !keep[h] {
						allowedAll[h] = true
					}
				}
				continue
			}
			ce := u.specEv(entry, pos)
			ce.old = entry
			name, _, ref, ok := ce.modItem(item, ce)
			if !ok {
				continue
			}
			if ref == "" {
				allowedAll[name] = true
			} else {
				except[name] = append(except[name], ref)
			}
		}
	}
	var out []string
	for _, h := range sortedHeapNames(st.heaps) {
		if allowedAll[h] || strings.HasPrefix(h, "B$") || strings.HasPrefix(h, "G$") {
			continue
		}
		init, ok := u.inits[h]
		cur := st.heaps[h]
		if !ok || cur.S == init.S {
			continue
		}
		var ex []string
		for _, r := range except[h] {
			ex = append(ex, smtNot(smtEq("r", r)))
		}
		u.g.Pre.addFresh()
		out = append(out, fmt.Sprintf("(forall ((r Int)) (! (=> %s (= (select %s r) (select %s r))) :pattern ((select %s r))))", smtAnd(append([]string{"(not (fresh$ r))"}, ex...)...), cur.S, init.S, cur.S))
	}
	return out
}

func (u *Unit) hasFrame() bool {
	b := u.block
	return b != nil && (len(b.clauses("modifies")) > 0 || hasFlag(b, "pure") || hasFlag(b, "frame") || len(b.clauses("allocates")) > 0)
}

func (u *Unit) frameObligations(b *Block, exits []*Exit, entry *State, pos token.Pos, id string) {
	allowedAll := map[string]bool{}
	except := map[string][]string{}
	star := false
	for _, c := range b.clauses("modifies") {
		for _, item := range splitTopSpaces(c.Text) {
			if item == "*" {
				star = true
				continue
			}
			if strings.HasPrefix(item, "allbut(") {
				keep := map[string]bool{}
				for _, k := range strings.Split(item[7:len(item)-1], ",") {
					keep[strings.TrimSpace(k)] = true
				}
				for h := range u.writes {
					if !keep[h] {
						allowedAll[h] = true
					}
				}
				continue
			}
			ce := u.specEv(entry, pos)
			ce.old = entry
			name, _, ref, ok := ce.modItem(item, ce)
			if !ok {
				continue
			}
			if ref == "" {
				allowedAll[name] = true
			} else {
				except[name] = append(except[name], ref)
			}
		}
	}
	if star {
		return
	}
	allocOK := map[string]bool{}
	for _, c := range b.clauses("allocates") {
		for _, item := range strings.Fields(c.Text) {
			ce := u.specEv(entry, pos)
			if name, _ := ce.allocHeap(item, u.bv); name != "" {
				allocOK[name] = true
			}
		}
	}
	for h := range u.writes {
		if !allowedAll[h] && len(except[h]) == 0 && !allocOK[h] && !strings.HasPrefix(h, "B$") {
			if _, ok := u.inits[h]; ok {
				u.g.errorf("%s: writes heap %s which is in neither its modifies nor its allocates clause", u.name, h)
			}
		}
	}
	var parts []string
	var names []string
	var hs []string
	for h := range u.writes {
		hs = append(hs, h)
	}
	sort.Strings(hs)
	for _, h := range hs {
		if allowedAll[h] || strings.HasPrefix(h, "B$") {
			continue
		}
		init, ok := u.inits[h]
		if !ok {
			continue
		}
		names = append(names, h)
		var ex []string
		for _, r := range except[h] {
			ex = append(ex, smtNot(smtEq("r", r)))
		}
		for _, e := range exits {
			if cur, ok := e.st.heaps[h]; ok && cur.S != init.S {
				parts = append(parts, pathImp(e.st.pc, fmt.Sprintf("(forall ((r Int)) (=> %s (= (select %s r) (select %s r))))", smtAnd(append([]string{"(not (fresh$ r))"}, ex...)...), cur.S, init.S)))
			}
		}
	}
	if len(parts) > 0 {
		u.g.Pre.addFresh()
		if hasFlag(b, "splitpaths") && len(parts) > 1 {
			for k, p := range parts {
				o := u.addMerged(fmt.Sprintf("%s/frame@%d", id, k), u.props, []string{p}, "objects outside the modifies clause are unchanged (pre-existing objects): "+strings.Join(names, " "))
				o.dropAxioms = u.axiomsNotUsed(b, "frame")
			}
			return
		}
		o := u.addMerged(id+"/frame", u.props, parts, "objects outside the modifies clause are unchanged (pre-existing objects): "+strings.Join(names, " "))
		o.dropAxioms = u.axiomsNotUsed(b, "frame")
	}
}

func hasFlag(b *Block, k string) bool {
	_, ok := b.Flags[k]
	return ok
}

// ---------- query construction ----------

// axiomsText: the carrier round-trip and bridge axioms are always present; the others
// (MONO_*) only in units whose contract block asks for them with `axioms NAME...`, because
// their two-variable patterns slow every query down.
func (g *Gen) axiomsText(u *Unit) string {
	ax, _ := carrierAxioms()
	extra := map[string]bool{}
	if u != nil && u.block != nil {
		for _, n := range strings.Fields(u.block.Flags["axioms"]) {
			extra[n] = true
		}
	}
	if u != nil && u.caseBlock != nil {
		for _, n := range strings.Fields(u.caseBlock.Flags["axioms"]) {
			extra[n] = true
		}
	}
	var sb strings.Builder
	if extra["MULNEG_8"] || extra["MULNEG_32"] || extra["MULNEG_64"] {
		for _, w := range []int{8, 32, 64} {
			g.Pre.add(fmt.Sprintf("(declare-fun go_bvmul%d ((_ BitVec %d) (_ BitVec %d)) (_ BitVec %d))", w, w, w, w))
		}
	}
	for _, k := range sortedKeys(ax) {
		if (strings.HasPrefix(k, "MONO_") || strings.HasPrefix(k, "AMD64_") || strings.HasPrefix(k, "MULNEG_") || k == "BRIDGE_ORD") && !extra[k] {
			continue
		}
		if strings.HasPrefix(k, "AMD64_") {
			g.Assumed["float64->uint32 conversion of an out-of-range (negative) value behaves as compiled by gc for amd64 (through int64, then truncated): axiom "+k] = true
		}
		sb.WriteString("(assert " + ax[k] + ")\n")
	}
	return sb.String()
}

func (o *Obligation) query(g *Gen, withModel bool) string { return o.queryV(g, withModel, 0) }

// queryV builds the SMT query. variant 0 = full; 1 = without heavy hypotheses (quantified facts
// over float carriers); 2 = additionally without the global carrier/bridge axioms; 3 = additionally
// without the quantified non-freshness axioms of the initial heaps. Variants only drop
// hypotheses, so unsat on a variant is still a proof of the obligation.
func (o *Obligation) queryV(g *Gen, withModel bool, variant int) string {
	if o.Raw != "" {
		return o.Raw
	}
	var sb strings.Builder
	sb.WriteString("(set-option :produce-models true)\n(set-logic ALL)\n")
	// axioms first: they may add declarations to the prelude
	axt := g.axiomsText(o.unit)
	if variant >= 2 {
		axt = g.groundAxiomsText(o.unit)
	}
	sb.WriteString(g.Pre.text())
	sb.WriteString(axt)
	seen := map[string]bool{}
	goal := o.Goal
	if variant > 0 && o.LightGoal != "" {
		goal = o.LightGoal
	}
	if o.unit != nil {
		for _, d := range o.unit.decls {
			sb.WriteString(d + "\n")
		}
		// cone of influence: a definition constrains its newest symbol; it is relevant only if that
		// symbol is (transitively) mentioned by the hypotheses or the goal
		var cands []string
		for _, d := range o.unit.defs {
			if variant > 0 && isHeavyHyp(d) {
				continue
			}
			if o.dropAxioms != nil {
				if ax, ok := o.unit.defTag[d]; ok && o.dropAxioms[ax] {
					continue
				}
			}
			if variant > 2 && strings.HasPrefix(d, "(forall (") && strings.Contains(d, "(not (fresh$ ") {
				continue
			}
			cands = append(cands, d)
		}
		if variant < 3 {
			cands = append(cands, o.unit.sepDefs...)
		}
		for _, d := range coneOfInfluence(cands, append(append([]string{}, o.Hyps...), goal)) {
			if seen[d] {
				continue
			}
			seen[d] = true
			sb.WriteString("(assert " + d + ")\n")
		}
	}
	for _, h := range o.Hyps {
		if variant > 0 && isHeavyHyp(h) {
			continue
		}
		if seen[h] {
			continue
		}
		seen[h] = true
		sb.WriteString("(assert " + h + ")\n")
	}
	sb.WriteString("(assert " + smtNot(goal) + ")\n")
	sb.WriteString("(check-sat)\n")
	if withModel && len(o.Inputs) > 0 && variant == 0 {
		var ts []string
		for _, in := range o.Inputs {
			ts = append(ts, in.Term)
		}
		sb.WriteString("(get-value (" + strings.Join(ts, " ") + "))\n")
	}
	return sb.String()
}

// groundAxiomsText: only the quantifier-free axioms.
func (g *Gen) groundAxiomsText(u *Unit) string {
	var sb strings.Builder
	for _, l := range strings.Split(g.axiomsText(u), "\n") {
		if l != "" && !strings.Contains(l, "(forall") {
			sb.WriteString(l + "\n")
		}
	}
	return sb.String()
}
// verifyCase verifies one case of the first switch of a function against its case contract: the
// function is executed from its entry, but at the designated switch only that case is explored.
func (g *Gen) verifyCase(b *Block) { g.verifyCaseX(b, false) }

func (g *Gen) verifyCaseX(b *Block, unreachable bool) {
	fd := g.P.Funcs[b.Target]
	if fd == nil || fd.Body == nil {
		g.errorf("contract %s: no such function", b.ID())
		return
	}
	label := b.Case
	var sw *ast.SwitchStmt
	var cc *ast.CaseClause
	if strings.HasPrefix(label, "#") {
		k := 0
		fmt.Sscanf(label, "#%d", &k)
		ast.Inspect(fd.Body, func(n ast.Node) bool {
			if sw != nil {
				return false
			}
			if s, ok := n.(*ast.SwitchStmt); ok {
				sw = s
				if k < len(s.Body.List) {
					cc = s.Body.List[k].(*ast.CaseClause)
				}
				return false
			}
			return true
		})
	} else {
		sw, cc = findCase(fd, label)
	}
	if cc == nil {
		g.errorf("contract %s: case %s not found in %s", b.ID(), label, b.Target)
		return
	}
	fb := g.C.forFunc(b.Target)
	if fb == nil {
		fb = &Block{Kind: "func", Target: b.Target, Loop: -1, Closure: -1, Flags: map[string]string{}}
	}
	// the unit carries the function-level block for requires/ensures, with the case's flags on top
	merged := &Block{Kind: "func", Target: b.Target, Case: b.Case, Loop: -1, Closure: -1, Flags: map[string]string{}, Props: b.Props, Line: b.Line}
	for k, v := range fb.Flags {
		if k != "trusted" {
			merged.Flags[k] = v
		}
	}
	for k, v := range b.Flags {
		if k != "nopanic" {
			merged.Flags[k] = v
		}
	}
	// the function-level contract is proved case by case: every case unit checks the function's
	// ensures / panic clauses on the exits it reaches
	for _, c := range fb.Clauses {
		if hasFlag(fb, "trusted") && c.Kind != "requires" {
			continue // a trusted function-level contract is not proved through its cases
		}
		if c.Kind == "requires" || c.Kind == "ensures" || c.Kind == "panics_iff" || c.Kind == "modifies" {
			cc2 := c
			if len(cc2.Props) == 0 {
				cc2.Props = fb.Props
			}
			merged.Clauses = append(merged.Clauses, cc2)
		}
	}
	u := g.newUnit(b.ID(), fd, merged)
	u.props = append([]string{}, b.Props...)
	for _, p := range fb.Props {
		if !hasProp(u.props, p) {
			u.props = append(u.props, p)
		}
	}
	u.unreachable = unreachable
	u.caseSwitch, u.caseClause, u.caseBlock = sw, cc, b
	u.caseBody = cc
	g.Funcs[b.ID()] = true
	st := u.entryState()
	u.assumeWF(st)
	u.entry = st.clone()
	u.runBody(st, fd.Body.List)
	if !unreachable {
		u.finishCase()
	}
}

// caseLabels lists the labels of the first switch of a function ("default" for the default clause).
func caseLabels(fd *ast.FuncDecl) []string {
	var out []string
	done := false
	ast.Inspect(fd.Body, func(n ast.Node) bool {
		if done {
			return false
		}
		if s, ok := n.(*ast.SwitchStmt); ok {
			done = true
			for i, c := range s.Body.List {
				cc := c.(*ast.CaseClause)
				if cc.List == nil {
					out = append(out, "default")
					continue
				}
				l := caseLabel(cc.List[0])
				if l == "" {
					l = fmt.Sprintf("#%d", i)
				}
				out = append(out, l)
			}
			return false
		}
		return true
	})
	return out
}

// finishCase emits the case-level obligations (ensures at the end of the case body, panic clauses).
func (u *Unit) finishCase() {
	b := u.caseBlock
	if u.caseEntry == nil {
		u.g.errorf("%s: case was never reached during symbolic execution", u.name)
		return
	}
	pos := u.caseClause.Colon + 1
	if n := len(u.caseClause.Body); n > 0 {
		pos = u.caseClause.Body[n-1].End() - 1 // inside the last statement: the case's locals are in scope
	}
	if ctx := u.g.C.byID[b.Target+"/context"]; ctx != nil && !hasFlag(b, "noctx") {
		for i, c := range ctx.clauses("ensures") {
			var parts []string
			for _, ex := range u.caseExits {
				e := u.specEv(ex, pos)
				e.old = u.caseEntry
				parts = append(parts, pathImp(ex.pc, e.evSpec(c.Text).S))
			}
			name := c.Name
			if name == "" {
				name = fmt.Sprint(i)
			}
			props := append([]string{}, clauseProps(ctx, c)...)
			u.addMerged(fmt.Sprintf("%s/ctx#%s", b.ID(), name), props, parts, "every case: "+c.Text)
		}
	}
	var resNames []string
	if u.sig != nil {
		for i := 0; i < u.sig.Results().Len(); i++ {
			resNames = append(resNames, u.sig.Results().At(i).Name())
		}
	}
	for i, c := range b.clauses("ensures") {
		var parts []string
		for _, ex := range u.caseExits {
			e := u.specEv(ex, pos)
			e.old = u.caseEntry
			t := e.evSpec(c.Text)
			parts = append(parts, pathImp(ex.pc, t.S))
		}
		// `return` statements inside the case leave the function: the case's postconditions
		// (which may mention result) must hold at those exits as well
		for _, ex := range u.exits {
			if !ex.fromCase {
				continue
			}
			e := u.specEv(ex.st, pos)
			e.old = u.caseEntry
			e.results = ex.results
			e.resNames = resNames
			t := e.evSpec(c.Text)
			parts = append(parts, pathImp(ex.st.pc, t.S))
		}
		name := c.Name
		if name == "" {
			name = fmt.Sprint(i)
		}
		u.addMerged(fmt.Sprintf("%s/ensures#%s", b.ID(), name), clauseProps(b, c), parts, c.Text)
	}
	_, nopanic := b.flag("nopanic")
	iff := b.clauses("panics_iff")
	if nopanic || len(iff) > 0 {
		byWhy := map[string][]string{}
		var order []string
		for _, p := range u.panics {
			var goal string
			if nopanic {
				goal = smtNot(p.cond)
			} else {
				e := u.specEv(u.caseEntry, pos)
				e.old = u.caseEntry
				goal = smtImp(p.cond, e.evSpec(iff[0].Text).S)
			}
			why := p.why
			if os.Getenv("VERIF_PANICSITES") == "1" {
				why += "@" + p.pos // debugging aid: one obligation per panic site
			}
			if _, ok := byWhy[why]; !ok {
				order = append(order, why)
			}
			byWhy[why] = append(byWhy[why], pathImp(p.pc, goal))
		}
		for _, k := range order {
			kind := "nopanic"
			props := u.props
			if !nopanic {
				kind = "panics_only_if"
				props = clauseProps(b, iff[0])
			}
			u.addMerged(fmt.Sprintf("%s/%s:%s", b.ID(), kind, strings.ReplaceAll(k, " ", "-")), props, byWhy[k], kind+" ("+k+")")
		}
		if len(iff) > 0 {
			var parts []string
			for _, ex := range u.caseExits {
				e := u.specEv(u.caseEntry, pos)
				e.old = u.caseEntry
				parts = append(parts, pathImp(ex.pc, smtNot(e.evSpec(iff[0].Text).S)))
			}
			u.addMerged(fmt.Sprintf("%s/panics_if", b.ID()), clauseProps(b, iff[0]), parts, "normal end of case implies !("+iff[0].Text+")")
		}
	}
}

var symRe = regexp.MustCompile(`[A-Za-z0-9_$.]+![0-9]+(p[0-9]*)?`)

func symbolsOf(s string) []string {
	var out []string
	for _, x := range symRe.FindAllString(s, -1) {
		if strings.HasPrefix(x, "q$") {
			continue // bound variables of quantifiers are not symbols of the state
		}
		out = append(out, x)
	}
	return out
}

func symAge(sym string) int {
	i := strings.LastIndex(sym, "!")
	n := 0
	fmt.Sscanf(sym[i+1:], "%d", &n)
	return n
}

// coneOfInfluence keeps the definitions whose newest symbol is reachable from the roots.
func coneOfInfluence(defs []string, roots []string) []string {
	type dinfo struct {
		text   string
		newest string
		syms   []string
	}
	var ds []dinfo
	byNewest := map[string][]int{}
	var out []string
	for _, d := range defs {
		syms := symbolsOf(d)
		if len(syms) == 0 {
			out = append(out, d)
			continue
		}
		nw := syms[0]
		for _, s := range syms {
			if symAge(s) > symAge(nw) {
				nw = s
			}
		}
		ds = append(ds, dinfo{d, nw, syms})
		byNewest[nw] = append(byNewest[nw], len(ds)-1)
	}
	need := map[string]bool{}
	var work []string
	for _, r := range roots {
		for _, s := range symbolsOf(r) {
			if !need[s] {
				need[s] = true
				work = append(work, s)
			}
		}
	}
	taken := map[int]bool{}
	for len(work) > 0 {
		s := work[len(work)-1]
		work = work[:len(work)-1]
		for _, i := range byNewest[s] {
			if taken[i] {
				continue
			}
			taken[i] = true
			for _, t := range ds[i].syms {
				if !need[t] {
					need[t] = true
					work = append(work, t)
				}
			}
		}
	}
	for i, d := range ds {
		if taken[i] {
			out = append(out, d.text)
		}
	}
	return out
}

// filterPC: `uses NAME: A B ...` in a function block: postcondition NAME needs, of the named loop
// invariants assumed along the way, only A, B, ... (see filterInvHyps).
func (u *Unit) filterPC(b *Block, name string, pc []string) []string {
	if name == "" || u.invTag == nil {
		return pc
	}
	var allowed map[string]bool
	for _, c := range b.clauses("uses") {
		parts := strings.SplitN(c.Text, ":", 2)
		if len(parts) != 2 || strings.TrimSpace(parts[0]) != name {
			continue
		}
		allowed = map[string]bool{}
		for _, a := range strings.Fields(parts[1]) {
			allowed[a] = true
		}
	}
	if allowed == nil {
		return pc
	}
	var out []string
	for _, h := range pc {
		if tag, ok := u.invTag[h]; ok {
			if k := strings.LastIndex(tag, "#"); k >= 0 && !allowed[tag[k+1:]] {
				continue
			}
		}
		out = append(out, h)
	}
	return out
}

func (u *Unit) tagDef(d, axiom string) {
	if u.defTag == nil {
		u.defTag = map[string]string{}
	}
	u.defTag[d] = axiom
}

// axiomsNotUsed: with a `uses NAME: ...` list, the user axiom blocks of the unit that the list
// does not mention are left out of that obligation as well.
func (u *Unit) axiomsNotUsed(b *Block, name string) map[string]bool {
	if name == "" {
		return nil
	}
	for _, c := range b.clauses("uses") {
		parts := strings.SplitN(c.Text, ":", 2)
		if len(parts) != 2 || strings.TrimSpace(parts[0]) != name {
			continue
		}
		drop := map[string]bool{}
		for _, ax := range u.defTag {
			drop[ax] = true
		}
		for _, a := range strings.Fields(parts[1]) {
			delete(drop, a)
		}
		return drop
	}
	return nil
}

package main

import (
	"fmt"
	"go/ast"
	"go/types"
	"strings"
)

// ---------------------------------------------------------------------------------------------
// Optimizer rule lemmas (C02 fusion, C20 position). For every rule extracted from doOptimize:
//   rule[...]/advance : n advances by exactly the window size minus one
//   rule[...]/pos     : the fused instruction's Pos is that of a window component that can fault
//                       (or of one that Go's grammar puts on the same line: `sameline i j`)
//   rule[...]/fusion#*: running the REAL case bodies of the window instructions in sequence and the
//                       REAL case body of the fused instruction from the same symbolic machine state
//                       ends in the same operand stack, locals, globals and next instruction, with
//                       the same panic outcome. Calls into impure callees are events: both sides
//                       must make the same calls with equal arguments (on equal stacks when the
//                       callee can see the VM); their results are shared symbols (determinism).
// ---------------------------------------------------------------------------------------------

type lemmaEvent struct {
	key   string
	args  []Term
	st    *State // state right before the call (after argument evaluation)
	seesV bool
	stop  bool
	pc    []string
}

type lemmaSide struct {
	finals  []*State
	events  []lemmaEvent
	panics  []*PanicExit
	stopped bool
}

func (g *Gen) ruleBlock(r *Rule) *Block {
	code := "?"
	if c, ok := r.Repl["Code"].(*ast.Ident); ok {
		code = c.Name
	}
	key := strings.Join(r.Window, " ") + " -> " + code
	return g.C.byID["rule:"+key]
}

// rulePropsOf: a fusion lemma belongs to C02 and to every property named by its rule block
// (`property C09` on the FASTCALL rules: the fused call forms deliver arguments like CALL).
func rulePropsOf(b *Block) []string {
	props := []string{"C02"}
	for _, p := range b.Props {
		if p != "C02" && p != "C20" {
			props = append(props, p)
		}
	}
	return props
}

func (g *Gen) ruleLemmas(id string) {
	if id != "C02" && id != "C20" {
		tagged := false
		for _, b := range g.C.Blocks {
			if b.Kind == "rule" && hasProp(b.Props, id) {
				tagged = true
			}
		}
		if !tagged {
			// every property's check still insists that the rule set is the one the lemmas were
			// written for: a new or altered window of doOptimize has no `rule` block and is reported
			// (the optimizer rewrites all compiled code, whatever the property is about)
			for _, r := range g.extractRules() {
				if !r.Default && g.ruleBlock(r) == nil {
					g.errorf("%s: rule of doOptimize has no `rule` block in the contract file (a new rule needs its lemma)", r.Name())
				}
			}
			return
		}
	}
	rules := g.extractRules()
	if len(rules) == 0 {
		g.errorf("rules: no rules extracted")
		return
	}
	seenDefault := false
	for _, r := range rules {
		if r.Default {
			seenDefault = true
			continue
		}
		b := g.ruleBlock(r)
		if b == nil {
			g.errorf("%s: rule of doOptimize has no `rule` block in the contract file (a new rule needs its lemma)", r.Name())
			continue
		}
		if id != "C02" && id != "C20" && !hasProp(b.Props, id) {
			continue
		}
		g.ruleProps = rulePropsOf(b)
		if id != "C20" {
			o := &Obligation{Name: r.Name() + "/advance", Props: g.ruleProps, Goal: smtEq(fmt.Sprint(r.Advance), fmt.Sprint(len(r.Window)-1)), Text: "n advances by window size - 1", Unit: r.Name()}
			g.Obls = append(g.Obls, o)
			g.fusionLemma(r, b)
		}
		// C02 also promises that a failure is reported on the same source line with the optimizer on
		// or off: the position lemma belongs to both properties
		if id == "C02" || id == "C20" {
			g.posLemma(r, b)
		}
	}
	if !seenDefault {
		g.errorf("rules: doOptimize switch has no default (copy) case")
	}
}

// faultable: can the case of this opcode raise a run-time error? (its case contract is not nopanic)
func (g *Gen) faultable(code string) bool {
	b := g.caseBlockFor("(*VM).exec", code)
	if b == nil {
		return true
	}
	return !hasFlag(b, "nopanic")
}

func (g *Gen) posLemma(r *Rule, b *Block) {
	posIdx := -1
	if p, ok := r.Repl["Pos"]; ok {
		if i, f, ok := inField(p); ok && f == "Pos" {
			posIdx = i
		}
	}
	name := r.Name() + "/pos"
	var faults []int
	for i, c := range r.Window {
		if g.faultable(c) {
			faults = append(faults, i)
		}
	}
	same := map[[2]int]bool{}
	for _, c := range b.clauses("sameline") {
		var i, j int
		if n, _ := fmt.Sscanf(c.Text, "%d %d", &i, &j); n == 2 {
			same[[2]int{i, j}] = true
			same[[2]int{j, i}] = true
			g.Assumed["A-LINE "+r.Name()+": window components "+c.Text+" are on the same source line by Go's grammar"] = true
		}
	}
	// same-line facts established by the rule's own guard: sameLine(in[n+i].Pos, in[n+j].Pos)
	for _, gd := range r.Guards {
		if call, okc := gd.(*ast.CallExpr); okc && len(call.Args) == 2 {
			if id, okc := call.Fun.(*ast.Ident); okc && id.Name == "sameLine" {
				i, fi, ok1 := inField(call.Args[0])
				j, fj, ok2 := inField(call.Args[1])
				if ok1 && ok2 && fi == "Pos" && fj == "Pos" {
					same[[2]int{i, j}] = true
					same[[2]int{j, i}] = true
				}
			}
		}
	}
	ok := posIdx >= 0
	var why []string
	for _, fidx := range faults {
		if fidx == posIdx || same[[2]int{posIdx, fidx}] {
			continue
		}
		ok = false
		why = append(why, fmt.Sprintf("component %d (%s) can fault but the fused instruction carries the position of component %d (%s)", fidx, r.Window[fidx], posIdx, r.Window[posIdx%len(r.Window)]))
	}
	goal := "true"
	if !ok {
		goal = "false"
	}
	o := &Obligation{Name: name, Props: []string{"C20", "C02"}, Goal: goal, Unit: r.Name(),
		Text: fmt.Sprintf("Pos(fused) = Pos(in[n+%d]); faultable components %v; %s", posIdx, faults, strings.Join(why, "; "))}
	g.Obls = append(g.Obls, o)
}

// ---------- fusion ----------

func (g *Gen) fusionLemma(r *Rule, b *Block) {
	fd := g.P.Funcs["(*VM).exec"]
	if fd == nil {
		g.errorf("%s: exec not found", r.Name())
		return
	}
	var forStmt *ast.ForStmt
	var pro []ast.Stmt
	for _, s := range fd.Body.List {
		if f, ok := s.(*ast.ForStmt); ok {
			forStmt = f
			break
		}
		pro = append(pro, s)
	}
	if forStmt == nil {
		g.errorf("%s: exec has no loop", r.Name())
		return
	}
	u := g.newUnit(r.Name(), fd, &Block{Kind: "rule", Target: r.Name(), Loop: -1, Closure: -1, Flags: b.Flags, Props: g.ruleProps})
	u.props = g.ruleProps
	u.lemma = true
	g.Funcs[r.Name()] = true
	st0 := u.entryState()
	u.assumeWF(st0)
	e0 := u.newEv(st0)
	// symbolic operands of the window
	regT := g.P.Pkg.Types.Scope().Lookup("reg").Type()
	posT := g.P.Pkg.Types.Scope().Lookup("pos").Type()
	var win []map[string]Term
	for i := range r.Window {
		m := map[string]Term{}
		for _, f := range []string{"A", "B", "C"} {
			nm := g.freshName(fmt.Sprintf("w%d%s", i, f))
			st0.declare(nm, sInt)
			m[f] = Term{S: nm, Sort: sInt, T: regT, Signed: true}
		}
		nm := g.freshName(fmt.Sprintf("w%dPos", i))
		st0.declare(nm, sBV64)
		m["Pos"] = Term{S: nm, Sort: sBV64, T: posT}
		win = append(win, m)
	}
	for _, gd := range r.Guards {
		st0.assume(e0.ruleExpr(gd, win).S)
	}
	for _, c := range b.clauses("typing") {
		// typing side conditions of the construct that produces the window, over w<i>A.. names
		se := u.specEv(st0, u.bodyPos)
		for i, m := range win {
			for f, t := range m {
				se.bound[fmt.Sprintf("w%d%s", i, f)] = t
			}
		}
		st0.assume(se.evSpec(c.Text).S)
		g.Assumed["typing side condition of "+r.Name()+": "+c.Text] = true
	}
	for _, c := range b.clauses("uselemma") {
		se := u.specEv(st0, u.bodyPos)
		for i, m := range win {
			for f, t := range m {
				se.bound[fmt.Sprintf("w%d%s", i, f)] = t
			}
		}
		se.useLemma(c.Text, r.Name(), g.ruleProps)
	}
	// fused instruction
	fused := map[string]Term{}
	for _, f := range []string{"A", "B", "C"} {
		if x, ok := r.Repl[f]; ok {
			fused[f] = e0.ruleExpr(x, win)
		} else {
			fused[f] = Term{S: "0", Sort: sInt, T: regT}
		}
	}
	fusedCode := "?"
	if c, ok := r.Repl["Code"].(*ast.Ident); ok {
		fusedCode = c.Name
	}
	N := g.freshName("N0")
	st0.declare(N, sInt)
	st0.assume(app("<=", "0", N))
	vObj := st0.vars[u.sig.Recv()]
	codeConst := func(name string) string {
		c := g.P.Pkg.Types.Scope().Lookup(name).(*types.Const)
		return e0.constTerm(c.Val(), c.Type()).S
	}
	insSort := e0.sortOf(g.P.Pkg.Types.Scope().Lookup("instruction").Type())
	vmT := g.P.Pkg.Types.Scope().Lookup("VM").Type()
	frameT := g.P.Pkg.Types.Scope().Lookup("frame").Type()
	e0.sortOf(vmT)
	slots := g.freshName("slots")
	st0.declare(slots, sInt)
	g.Pre.add(fmt.Sprintf("(declare-fun ghost$slotsOf (%s) Int)", sSlice))

	mkSide := func(tag string, ins []map[string]Term, codes []string) *State {
		st := st0.clone()
		e := u.newEv(st)
		C := g.freshName("codes" + tag)
		st.declare(C, sSlice)
		st.assume(fmt.Sprintf("(and (<= 0 (soff %s)) (<= (slen %s) (scap %s)) (< (+ %s %d) (slen %s)) (> (sarr %s) 0))", C, C, C, N, len(ins)-1, C, C))
		st.assume(smtEq(app("ghost$slotsOf", C), slots))
		ih := e.elemHeap(insSort)
		for i, m := range ins {
			it := app("mk_"+insSort, codeConst(codes[i]), m["A"].S, m["B"].S, m["C"].S, m["Pos"].S)
			st.assume(smtEq(app("select", app("select", ih, app("sarr", C)), app("+", app("soff", C), N, fmt.Sprint(i))), it))
		}
		// v.frame = frame{BaseN: old, Codes: C, N: N}
		vmLoc := &Loc{Kind: "heap", Name: e.heapName(vmT), Ref: vObj.S, T: vmT}
		cur := e.load(vmLoc, nil)
		fr := e.selectField(cur, "frame", nil)
		baseN := e.selectField(fr, "BaseN", nil)
		ft := Term{S: app("mk_"+e.sortOf(frameT), baseN.S, C, N), Sort: e.sortOf(frameT), T: frameT}
		e.store(&Loc{Kind: "field", Base: vmLoc, Fld: "frame", T: frameT}, ft, nil)
		return st
	}
	fusedPos := Term{S: "#x0000000000000000", Sort: sBV64, T: posT}
	if p, ok := r.Repl["Pos"]; ok {
		fusedPos = e0.ruleExpr(p, win)
	}
	fm := map[string]Term{"A": fused["A"], "B": fused["B"], "C": fused["C"], "Pos": fusedPos}
	stA := mkSide("A", win, r.Window)
	// distinct code arrays
	stB := mkSide("B", []map[string]Term{fm}, []string{fusedCode})

	runSide := func(st *State, codes []string, assumeReq bool, tag string) *lemmaSide {
		side := &lemmaSide{}
		u.side = side
		u.entry = st.clone()
		p0 := len(u.panics)
		var step func(k int, s *State)
		end := func(s *State) { side.finals = append(side.finals, s) }
		step = func(k int, s *State) {
			if k == len(codes) {
				end(s)
				return
			}
			_, cc := findCase(fd, codes[k])
			if cc == nil {
				g.errorf("%s: no case %s in exec", r.Name(), codes[k])
				return
			}
			pos := cc.Colon + 1
			cb := g.caseBlockFor("(*VM).exec", codes[k])
			// in-range and context/case preconditions
			se := u.specEv(s, pos)
			s.assume(se.evSpec("v.frame.N < l && 0 <= v.frame.N && v.frame.Codes == codes && v.frame.BaseN == baseN && l == len(codes) && baseN >= 0 && slotsOf(codes) >= 0 && len(v.stack) >= baseN + slotsOf(codes)").S)
			var reqs []Clause
			if ctx := g.C.byID["(*VM).exec/context"]; ctx != nil {
				reqs = append(reqs, ctx.clauses("requires")...)
			}
			if cb != nil {
				reqs = append(reqs, cb.clauses("requires")...)
			}
			for i, c := range reqs {
				t := u.specEv(s, pos).evSpec(c.Text)
				if assumeReq {
					s.assume(t.S)
				} else {
					u.addObl(fmt.Sprintf("%s/fusion#requires-%s-%d", r.Name(), codes[k], i), g.ruleProps, s, t.S, "the fused instruction's precondition follows from the window's: "+c.Text, nil)
					s.assume(t.S)
				}
			}
			caseEntry := s.clone()
			ev0 := len(side.events)
			after := func(s2 *State) {
				if s2.dead {
					return
				}
				// Side A: the step is replaced by its proved case contract. The post-state gets fresh
				// heaps constrained only by the case's postconditions, which keeps the window's
				// intermediate states out of the later queries.
				if cb != nil && assumeReq && len(side.events) == ev0 {
					s3 := caseEntry.clone()
					for _, h := range sortedHeapNames(s2.heaps) {
						cur := s2.heaps[h]
						if old, ok := caseEntry.heaps[h]; ok && old.S == cur.S {
							continue
						}
						if strings.HasPrefix(h, "G$") {
							continue
						}
						nm := g.freshName(h)
						s3.declare(nm, cur.Sort)
						s3.heaps[h] = Term{S: nm, Sort: cur.Sort, T: cur.T}
					}
					ctxb := g.C.byID["(*VM).exec/context"]
					var ens []Clause
					if ctxb != nil {
						ens = append(ens, ctxb.clauses("ensures")...)
					}
					ens = append(ens, cb.clauses("ensures")...)
					for _, c := range ens {
						if !assumableAtCallSite(c) {
							continue
						}
						ce := u.specEv(s3, pos)
						ce.old = caseEntry
						s3.assume(ce.evSpec(c.Text).S)
					}
					s2 = s3
				} else if cb != nil {
					for _, c := range cb.clauses("ensures") {
						if !assumableAtCallSite(c) {
							continue
						}
						ce := u.specEv(s2, pos)
						ce.old = caseEntry
						s2.assume(ce.evSpec(c.Text).S)
					}
				}
				if forStmt.Post != nil {
					u.exec(forStmt.Post, s2, Flow{next: func(s3 *State) { step(k+1, s3) }})
				} else {
					step(k+1, s2)
				}
			}
			u.lemmaStep = k
			u.lemmaLast = k == len(codes)-1
			u.execList(cc.Body, s, Flow{next: after, brk: after, ret: func(s2 *State, _ []Term) { end(s2) }})
		}
		// prologue binds codes, baseN, l
		u.execList(pro, st, Flow{next: func(s *State) { step(0, s) }})
		side.panics = append(side.panics, u.panics[p0:]...)
		u.side = nil
		return side
	}
	A := runSide(stA, r.Window, true, "A")
	// the window's run is a deterministic function of the common initial state: everything that was
	// assumed along it (ISA preconditions of the window instructions) is a hypothesis for side B
	var alts []string
	for _, f := range A.finals {
		alts = append(alts, smtAnd(f.pc...))
	}
	if len(A.finals) == 0 {
		for _, ev := range A.events {
			if ev.stop {
				alts = append(alts, smtAnd(ev.pc...))
			}
		}
	}
	if len(alts) > 0 {
		stB.assume(smtOr(alts...))
	}
	B := runSide(stB, []string{fusedCode}, false, "B")
	g.compareSides(u, r, A, B, vObj, len(r.Window))
}

func (g *Gen) compareSides(u *Unit, r *Rule, A, B *lemmaSide, vObj Term, k int) {
	name := r.Name() + "/fusion#"
	props := g.ruleProps
	// events: same calls in the same order with equal arguments
	if len(A.events) != len(B.events) {
		g.Obls = append(g.Obls, &Obligation{Name: name + "events", Props: props, Goal: "false", Unit: r.Name(), unit: u,
			Text: fmt.Sprintf("window makes %d impure calls %v, fused instruction %d %v", len(A.events), evKeys(A.events), len(B.events), evKeys(B.events))})
		return
	}
	vmT := g.P.Pkg.Types.Scope().Lookup("VM").Type()
	stackEq := func(sa, sb *State) []string {
		ea, eb := u.newEv(sa), u.newEv(sb)
		la := ea.selectField(ea.load(&Loc{Kind: "heap", Name: ea.heapName(vmT), Ref: vObj.S, T: vmT}, nil), "stack", nil)
		lb := eb.selectField(eb.load(&Loc{Kind: "heap", Name: eb.heapName(vmT), Ref: vObj.S, T: vmT}, nil), "stack", nil)
		ha, hb := ea.elemHeap("Value"), eb.elemHeap("Value")
		cells := fmt.Sprintf("(forall ((j Int)) (=> (and (<= 0 j) (< j (slen %s))) (= (select (select %s (sarr %s)) (+ (soff %s) j)) (select (select %s (sarr %s)) (+ (soff %s) j)))))", la.S, ha, la.S, la.S, hb, lb.S, lb.S)
		return []string{smtEq(app("slen", la.S), app("slen", lb.S)), cells}
	}
	for i := range A.events {
		ea, eb := A.events[i], B.events[i]
		hyps := append(append([]string{}, ea.pc...), eb.pc...)
		if ea.key != eb.key || len(ea.args) != len(eb.args) {
			g.Obls = append(g.Obls, &Obligation{Name: fmt.Sprintf("%sevent%d-callee", name, i), Props: props, Goal: "false", Unit: r.Name(), unit: u, Text: "different callees: " + ea.key + " vs " + eb.key})
			continue
		}
		var eqs []string
		rb := g.ruleBlock(r)
		for j := range ea.args {
			if ea.args[j].Sort == eb.args[j].Sort && ea.args[j].S != "" {
				rel := ""
				for _, c := range rb.clauses("argrel") {
					var ei, ai int
					var kind string
					if n, _ := fmt.Sscanf(c.Text, "%d %d %s", &ei, &ai, &kind); n == 3 && ei == i && ai == j {
						rel = kind
					}
				}
				if rel == "numvalue" && ea.args[j].Sort == "Value" {
					g.Assumed["A-KEY "+r.Name()+": callee "+ea.key+" uses only the numeric payload / object of argument "+fmt.Sprint(j)+", not its type tag"] = true
					eqs = append(eqs, smtEq(app("Value$num", ea.args[j].S), app("Value$num", eb.args[j].S)), smtEq(app("Value$value", ea.args[j].S), app("Value$value", eb.args[j].S)))
					continue
				}
				eqs = append(eqs, smtEq(ea.args[j].S, eb.args[j].S))
			}
		}
		o := &Obligation{Name: fmt.Sprintf("%sevent%d-args", name, i), Props: props, Hyps: hyps, Goal: smtAnd(eqs...), Unit: r.Name(), unit: u, Text: "call of " + ea.key + " receives equal arguments on both sides"}
		g.Obls = append(g.Obls, o)
		if ea.seesV {
			se := stackEq(ea.st, eb.st)
			g.Obls = append(g.Obls, &Obligation{Name: fmt.Sprintf("%sevent%d-stack", name, i), Props: props, Hyps: hyps, Goal: smtAnd(se...), Unit: r.Name(), unit: u, Text: "operand stacks agree (as sequences) when " + ea.key + " is entered"})
		}
		if ea.stop != eb.stop {
			g.Obls = append(g.Obls, &Obligation{Name: fmt.Sprintf("%sevent%d-last", name, i), Props: props, Goal: "false", Unit: r.Name(), unit: u, Text: "the VM-modifying call must be the last action on both sides"})
		}
	}
	// final states (paths that did not end in a VM-modifying call)
	if len(A.finals) == 0 && len(B.finals) == 0 && !(A.stopped && B.stopped) {
		g.Obls = append(g.Obls, &Obligation{Name: name + "reach", Props: props, Goal: "false", Unit: r.Name(), unit: u, Text: "no final state reached"})
	}
	for ia, sa := range A.finals {
		for ib, sb := range B.finals {
			hyps := append(append([]string{}, sa.pc...), sb.pc...)
			ea, eb := u.newEv(sa), u.newEv(sb)
			va := ea.load(&Loc{Kind: "heap", Name: ea.heapName(vmT), Ref: vObj.S, T: vmT}, nil)
			vb := eb.load(&Loc{Kind: "heap", Name: eb.heapName(vmT), Ref: vObj.S, T: vmT}, nil)
			se := stackEq(sa, sb)
			suffix := ""
			if len(A.finals)*len(B.finals) > 1 {
				suffix = fmt.Sprintf("@%d.%d", ia, ib)
			}
			add := func(n, goal, text string) {
				g.Obls = append(g.Obls, &Obligation{Name: name + n + suffix, Props: props, Hyps: hyps, Goal: goal, Unit: r.Name(), unit: u, Text: text})
			}
			add("stacklen", se[0], "same operand stack depth after the window and after the fused instruction")
			add("stack", se[1], "same operand stack contents (locals included)")
			na := ea.selectField(ea.selectField(va, "frame", nil), "N", nil)
			nb := eb.selectField(eb.selectField(vb, "frame", nil), "N", nil)
			add("next", smtEq(app("-", na.S, fmt.Sprint(k)), app("-", nb.S, "1")), "the next instruction corresponds (jump distances preserved)")
			ga := ea.selectField(va, "globals", nil)
			gb := eb.selectField(vb, "globals", nil)
			lkT := g.P.Pkg.Types.Scope().Lookup("lookup").Type()
			da := ea.selectField(ea.load(&Loc{Kind: "heap", Name: ea.heapName(lkT), Ref: ga.S, T: lkT}, nil), "data", nil)
			db := eb.selectField(eb.load(&Loc{Kind: "heap", Name: eb.heapName(lkT), Ref: gb.S, T: lkT}, nil), "data", nil)
			ha, hb := ea.elemHeap("Value"), eb.elemHeap("Value")
			if len(A.events) == 0 {
				add("globals", smtAnd(smtEq(ga.S, gb.S), smtEq(app("slen", da.S), app("slen", db.S)),
				fmt.Sprintf("(forall ((j Int)) (=> (and (<= 0 j) (< j (slen %s))) (= (select (select %s (sarr %s)) (+ (soff %s) j)) (select (select %s (sarr %s)) (+ (soff %s) j)))))", da.S, ha, da.S, da.S, hb, db.S, db.S)), "same globals table")
			}
		}
	}
	// panic outcome. Implicit run-time errors (index, nil, bounds) cannot occur on either side under
	// the window's ISA preconditions; errors raised by callees are paired in order and must be
	// raised under equivalent conditions.
	split := func(ps []*PanicExit) (impl, callee []*PanicExit) {
		for _, p := range ps {
			if strings.HasPrefix(p.why, "callee ") || strings.HasPrefix(p.why, "function value") || strings.HasPrefix(p.why, "dynamic call") || p.why == "explicit panic" {
				callee = append(callee, p)
			} else {
				impl = append(impl, p)
			}
		}
		return
	}
	ia, ca := split(A.panics)
	ib, cb := split(B.panics)
	var parts []string
	for _, p := range append(ia, ib...) {
		parts = append(parts, pathImp(p.pc, smtNot(p.cond)))
	}
	if len(parts) > 0 {
		g.Obls = append(g.Obls, &Obligation{Name: name + "nofault", Props: props, Goal: smtAnd(parts...), Unit: r.Name(), unit: u,
			Text: "no index/bounds/nil fault on either side under the window's ISA preconditions"})
	}
	if len(ca) != len(cb) {
		// different numbers of callee error exits: acceptable only if none of them can be taken
		var ps []string
		for _, p := range append(append([]*PanicExit{}, ca...), cb...) {
			ps = append(ps, pathImp(p.pc, smtNot(p.cond)))
		}
		g.Obls = append(g.Obls, &Obligation{Name: name + "panics", Props: props, Goal: smtAnd(ps...), Unit: r.Name(), unit: u,
			Text: fmt.Sprintf("the window has %d callee error exits, the fused instruction %d: none of them may be reachable", len(ca), len(cb))})
	} else {
		for i := range ca {
			if ca[i].why != cb[i].why {
				g.Obls = append(g.Obls, &Obligation{Name: fmt.Sprintf("%spanics%d", name, i), Props: props, Goal: "false", Unit: r.Name(), unit: u, Text: "different error sources: " + ca[i].why + " vs " + cb[i].why})
				continue
			}
			hyps := append(append([]string{}, ca[i].pc...), cb[i].pc...)
			g.Obls = append(g.Obls, &Obligation{Name: fmt.Sprintf("%spanics%d", name, i), Props: props, Hyps: hyps, Goal: smtEq(ca[i].cond, cb[i].cond), Unit: r.Name(), unit: u,
				Text: "error raised by " + ca[i].why + " under the same condition on both sides"})
		}
	}
}

func evKeys(es []lemmaEvent) []string {
	var out []string
	for _, e := range es {
		out = append(out, e.key)
	}
	return out
}

// lemmaCall intercepts calls to impure callees while a fusion lemma is being generated.
// Returns (result, true) when the call was handled as an event.
func (e *Ev) lemmaCall(fn *types.Func, key string, b *Block, recv *Term, args []Term, n *ast.CallExpr) (Term, bool) {
	u := e.u
	if !u.lemma || u.side == nil || e.spec {
		return Term{}, false
	}
	pure := hasFlag(b, "pure") || hasFlag(b, "inline")
	if pure {
		return Term{}, false
	}
	wholeHavoc := false
	for _, c := range b.clauses("modifies") {
		for _, it := range splitTopSpaces(c.Text) {
			if it == "*" || strings.HasPrefix(it, "allbut(") {
				wholeHavoc = true
			}
		}
	}
	trusted := hasFlag(b, "trusted")
	if !trusted && !wholeHavoc {
		return Term{}, false // verified callee with a functional contract: use it
	}
	sig := fn.Type().(*types.Signature)
	ord := len(u.side.events)
	ev := lemmaEvent{key: key, st: e.st.clone(), pc: append([]string(nil), e.st.pc...)}
	if recv != nil {
		ev.args = append(ev.args, *recv)
	}
	ev.args = append(ev.args, args...)
	vmT := e.g().P.Pkg.Types.Scope().Lookup("VM").Type()
	for i := 0; i < sig.Params().Len(); i++ {
		if p, ok := sig.Params().At(i).Type().(*types.Pointer); ok && types.Identical(p.Elem(), vmT) && !hasFlag(b, "nostack") {
			ev.seesV = true
		}
	}
	modStar := false
	for _, c := range b.clauses("modifies") {
		for _, it := range splitTopSpaces(c.Text) {
			if it == "*" {
				modStar = true
			}
		}
	}
	ev.stop = ev.seesV && modStar
	u.side.events = append(u.side.events, ev)
	// shared panic flag and results (determinism of the callee given equal arguments)
	pn := fmt.Sprintf("ev$%s$%d$panics", sanitize(u.name), ord)
	e.g().Pre.add(fmt.Sprintf("(declare-const %s Bool)", pn))
	e.panicIf(pn, "callee "+key+" may panic", n)
	if ev.stop {
		if !u.lemmaLast {
			e.g().errorf("%s: VM-modifying call %s before the last window instruction", u.name, key)
		}
		u.side.stopped = true
		e.st.dead = true
		return e.freshResults(sig, key), true
	}
	// heap effects: by contract, per side
	pre := e.st.clone()
	mk := func(st, old *State) *Ev {
		return &Ev{u: e.u, st: st, old: old, spec: true, pos: e.u.bodyPos, bv: e.bv, bound: map[string]Term{}, quiet: true}
	}
	for _, c := range b.clauses("modifies") {
		for _, h := range splitTopSpaces(c.Text) {
			e.havocItem(h, mk(pre, pre))
		}
	}
	var results []Term
	for i := 0; i < sig.Results().Len(); i++ {
		rt := sig.Results().At(i).Type()
		rs := e.sortOf(rt)
		nm := fmt.Sprintf("ev$%s$%d$res%d", sanitize(u.name), ord, i)
		e.g().Pre.add(fmt.Sprintf("(declare-const %s %s)", nm, rs))
		results = append(results, Term{S: nm, Sort: rs, T: rt, Signed: isSigned(rt)})
	}
	// the callee's ensures (frame facts such as stackKept) on this side
	postView := &State{vars: map[types.Object]Term{}, named: map[string]Term{}, heaps: e.st.heaps, decls: e.st.decls, boxed: map[types.Object]*Loc{}}
	preView := &State{vars: map[types.Object]Term{}, named: map[string]Term{}, heaps: pre.heaps, decls: e.st.decls, boxed: map[types.Object]*Loc{}}
	for _, s := range []*State{postView, preView} {
		if recv != nil && sig.Recv() != nil {
			s.vars[sig.Recv()] = *recv
		}
		for i := 0; i < sig.Params().Len() && i < len(args); i++ {
			s.vars[sig.Params().At(i)] = args[i]
		}
	}
	fd := e.g().P.Funcs[key]
	for _, c := range b.clauses("ensures") {
		if !assumableAtCallSite(c) {
			continue
		}
		ce := mk(postView, preView)
		if fd != nil && fd.Body != nil {
			ce.pos = fd.Body.Lbrace + 1
		}
		ce.results = results
		e.st.assume(ce.evSpec(c.Text).S)
	}
	switch len(results) {
	case 0:
		return Term{Sort: "void"}, true
	case 1:
		return results[0], true
	}
	return Term{Sort: "tuple", Tuple: results}, true
}

// caseBlockFor finds the case contract that covers a label, also when the case clause lists
// several labels and the block is keyed by another one of them.
func (g *Gen) caseBlockFor(fn, label string) *Block {
	if b := g.C.forCase(fn, label); b != nil {
		return b
	}
	fd := g.P.Funcs[fn]
	if fd == nil {
		return nil
	}
	_, cc := findCase(fd, label)
	if cc == nil {
		return nil
	}
	for _, x := range cc.List {
		if b := g.C.forCase(fn, caseLabel(x)); b != nil {
			return b
		}
	}
	return nil
}

#!/bin/bash
# Runs the check of a property against each seeded mutation of it (applied to /repo, undone afterwards).
# usage: run_seeded.sh [ids...]   (default: every /verif/seeded/<id>_m<k>)
cd /verif
if [ -n "$(git -C /repo status --porcelain)" ]; then echo "refusing: /repo has uncommitted changes (they would be lost)"; exit 2; fi
sel="$@"
for d in seeded/*_m*; do
  name=$(basename $d); id=${name%%_*}
  if [ -n "$sel" ] && ! echo " $sel " | grep -q " $id "; then continue; fi
  if ! grep -q "\"property_id\": \"$id\"" MANIFEST.json && [ -z "${FORCE:-}" ]; then echo "$name: (property not claimed)"; continue; fi
  if ! git -C /repo apply --check $PWD/$d/patch.diff 2>/dev/null; then echo "$name: patch does not apply to current tree"; continue; fi
  git -C /repo apply $PWD/$d/patch.diff
  out=$(bin/govc check $id 2>&1); rc=$?
  git -C /repo checkout -- . 
  n=$(echo "$out" | grep -c "^VIOLATION")
  first=$(echo "$out" | grep "^VIOLATION" | head -2 | sed 's/.*obligation=//' | tr '\n' ';')
  echo "$name: exit=$rc violations=$n $first"
done

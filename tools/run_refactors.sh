#!/bin/bash
# Applies each behaviour-preserving refactoring in $1 (dir of *.diff) to a scratch copy and runs the checks
# of the properties whose contracts touch the changed file. Any VIOLATION here is a false alarm.
export GOFLAGS=-mod=mod GOPROXY=off GOSUMDB=off
DIR=${1:-/verif/refactors}
S=/var/tmp/govc-refactor
for d in $DIR/*.diff; do
  name=$(basename $d .diff)
  rm -rf $S; mkdir -p $S; (cd /repo && git ls-files -z | xargs -0 cp --parents -t $S)
  if ! (cd $S && patch -s -p1 < $d >/dev/null 2>&1); then echo "$name: patch does not apply"; continue; fi
  if ! (cd $S && go build ./... >/dev/null 2>&1); then echo "$name: does not build"; continue; fi
  res=""
  for id in ${PROPS:-C02 C03 C04 C05 C06 C07 C08 C09 C10 C11 C12 C13 C14 C15 C16 C17 C19 C20}; do
    out=$(VERIF_REPO=$S VERIF_NOEVIDENCE=1 /verif/bin/govc check $id 2>&1); rc=$?
    if [ $rc != 0 ]; then
      first=$(echo "$out" | grep "^VIOLATION\|ENGINE\|VACUOUS\|rror" | head -1 | sed 's/.*obligation=//' | cut -c1-110)
      res="$res $id(rc=$rc: $first)"
    fi
  done
  if [ -z "$res" ]; then echo "$name: quiet"; else echo "$name: ALARM$res"; fi
done
rm -rf $S

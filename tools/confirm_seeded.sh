#!/bin/bash
# Confirms a candidate mutation: (1) applies, (2) suite passes with it, (3) demo fails with it, (4) demo passes without it.
# usage: confirm_seeded.sh <dir-with-mK.diff...> <K> <out-dir-under-/verif/seeded>
set -u
export GOFLAGS=-mod=mod GOPROXY=off GOSUMDB=off GOTOOLCHAIN=local
src=$1; k=$2; out=$3
base=$(cat /verif/seeded/BASE_COMMIT 2>/dev/null || echo f34527a)
wt=/var/tmp/seed-confirm
rm -rf $wt; git -C /repo worktree prune; git -C /repo worktree add -q --detach $wt $base || exit 2
cd $wt
res="ok"
git apply $src/m$k.diff || res="apply-failed"
if [ $res = ok ]; then
  go test -vet=off -count=1 ./... > /tmp/seed_suite.log 2>&1 || res="suite-fails-with-change"
fi
if [ $res = ok ]; then
  cp $src/m${k}_demo_test.go zz_demo_m${k}_test.go
  if go test -vet=off -count=1 -run "TestDemoM$k" . > /tmp/seed_demo_with.log 2>&1; then res="demo-passes-with-change"; fi
fi
if [ $res = ok ]; then
  git checkout -q -- . 
  go test -vet=off -count=1 -run "TestDemoM$k" . > /tmp/seed_demo_without.log 2>&1 || res="demo-fails-without-change"
fi
cd /; git -C /repo worktree remove --force $wt
echo "$src m$k: $res"
if [ $res = ok ]; then
  mkdir -p $out; cp $src/m$k.diff $out/patch.diff; cp $src/m${k}_demo_test.go $out/demo_test.go
  python3 - $src/m$k.json $out/meta.json <<'PY'
import json,sys
m=json.load(open(sys.argv[1]))
m["confirmed"]={"ran":["git apply patch.diff in a scratch worktree of the pinned commit","go test -vet=off -count=1 ./... (pass with change)","go test -run TestDemoM* (FAIL with change)","git checkout -- . ; go test -run TestDemoM* (pass without change)"]}
json.dump(m,open(sys.argv[2],"w"),indent=1)
PY
fi

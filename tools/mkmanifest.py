#!/usr/bin/env python3
"""Regenerates /verif/MANIFEST.json from the table below (kept in one place so the manifest stays valid)."""
import json, os
here = os.path.dirname(os.path.dirname(os.path.abspath(__file__)))
props = [json.loads(l) for l in open(os.path.join(here, 'properties.jsonl'))]

TRUST = ("trusted base: the home-made verifier govc (Go AST -> SMT translation, heap/slice/map model), the SMT solvers, "
         "mathematical Go int in index arithmetic, IEEE-754 float64; contracts of callees replace their bodies; "
         "assumed contracts on dependencies are listed in the evidence file")

TECH = "contract-based deductive verification: contracts in /repo/contracts_verif.go, symbolic execution (WP) of the typed Go AST, SMT (z3 4.8/5.1, cvc5)"
claims = {
 'C02': dict(level='proof', design='5.2',
   text="The rule table is extracted from the AST of doOptimize; for each of the 16 rules a fusion lemma is discharged: the REAL exec case bodies of the window and of the fused instruction, run from one symbolic machine state, end in the same stack, locals, globals, next instruction and error outcome (impure callees: same calls with equal arguments, determinism). Covers all states and operand values. Not covered: that compile() keeps jump spans stable under re-optimisation (compiler side, DESIGN 5.2 span stability).",
   technique=TECH),
 'C03': dict(level='proof', design='5.3',
   text="Every function that installs a recover handler (VM.run, VM.Func and through it Call, parse, compiler.run) is verified with the handler body executed from the state of each panic raised on the protected path (what a panicking callee may have modified is unknown there); `nopanic` on such a function therefore means that no Go panic escapes it, and code before the defer is unprotected. The error builder (btErr, pos.String/info) is total. Stage and glue functions proved panic-free (every indexing, slicing, nil dereference and callee outside a handler is an obligation): Eval, Load, loadPackage, loadFile, loadImports, rawLoadPackage, rawLoadFile, checkConstraint, joinFiles, compilePkgs, treeDump, codeDump, instruction.String (against keyOps: which operand of which opcode is a globals index), the hash-table operations; token.Append rejects nil children. Repaired defects found by these obligations: D6 (btErr), D7 (compile handler, nil operand), D8 (import cycle), D20 (nil file system), D21 (invalid import path literal), D24 (unbounded parser recursion: fatal stack overflow), D25 (Type.str), D26 (position packing). NOT covered: termination of tokenize/parse/load/compile (no variants; tokenize sits on text/scanner and is assumed). Assumed and listed in the evidence: tree-shape facts where the loader walks a tree (A-WF), A-POS/A-KEY/A-SLOTS on emitted code, run options and natives do not panic, treeSort/token.String/parser.Statement trusted not to panic, exec's own internal state at panic time (made irrelevant by the total error builder, except the listed position-validity assumption A-POS).",
   technique=TECH + "; recover handlers executed symbolically from every panic state"),
 'C04': dict(level='proof', design='5.4',
   text="Contracts on the numeric core of value.go (all operator methods, comparisons, assign, convert) state Go's fixed-width semantics row by row (operand types x operator) with symbolic operands; the exec cases of the arithmetic/typing instructions (INCDEC, LOCALINCDEC, NEGATE, BITCOMPLEMENT, CAST, CONVERT, LOCALSET, GLOBALSET) and the variadic packing of call() are proved against them. Carrier lemmas (int<->float64) are proved each run with real IEEE semantics. The compiler's CAST guard list for typed declarations is checked by a table obligation (D4 repaired).",
   technique=TECH),
 'C07': dict(level='proof', design='5.7',
   text="VM side: a case contract for every case of (*VM).exec (the ISA table: operand depth needed, exact stack delta, the only cells written, next instruction) is discharged from the real case bodies, together with the exec loop invariant (caller frames untouched, frame object restored) and the call protocol (call, callReady, mkFunc's activation closure). Compiler/parser side: only thin contracts (requested result counts: getDecl, assignLed, switchNud, forNud, return case; D10 repaired); that compile() emits code meeting every ISA precondition is NOT proved (the preconditions of the case contracts stay assumptions).",
   technique=TECH),
 'C09': dict(level='proof', design='5.9',
   text="Callee protocol contracts: callReady (arity and result-count errors, trimming), call (variadic packing: length, declared element type, order), the activation closure built by mkFunc (arguments typed in place and in order, zeroed slots, backtrace push/pop, results spliced, frame restored), newFunc, FUNC/CALL/CALLVARIADIC/FASTCALL/FASTCALLATTR cases, joinParams/splitParams round trip. newMethod (receiver inserted under the arguments, arity, variadic element type: D12 repaired). The NewFunc adapters are not yet under contract.",
   technique=TECH),
 'C05': dict(level='proof', design='5.5',
   text="Table obligations over the REAL symbol table (getSymbol's composite literal evaluated by the engine for every token): binary operators fall into Go's five levels in Go's order, every level is left-associative (led recursion binds with its own lbp), unary nud binding power exceeds every binary lbp and is below every postfix lbp; contracts on ledInfix / negateNud / complementNud / notNud / doExpression tie the table to the Pratt loop (the loop continues exactly while the next token's lbp exceeds the caller's rbp). Not covered: that evaluation of the resulting tree computes Go's value (C04/C07 slices).",
   technique=TECH),
 'C06': dict(level='proof', design='5.6',
   text="Case contracts on the control-flow cases of (*compiler).compile (if, &&, for, range, switch, return, lambda) proved from the real case bodies: jump spans are computed from the lengths of the emitted blocks, placeholder BREAK/CONTINUE are rewritten to jumps only inside the loop/switch block being closed, nested blocks already closed are left alone, rewritten BREAKs in switch target the end of the switch; ifNud nests else-if chains; VM-side JUMP/JUMPFALSE/JUMPTRUE/RETURN cases are in the C07 ISA contracts. The function-level contracts of compile/compileAll are trusted (recursion through the contract being proved, tree shape assumed); see DESIGN.md 11.2.",
   technique=TECH),
 'C08': dict(level='proof', design='5.8',
   text="Contracts on the scope machinery (lookup.Read/Write/Assign/Index/Shadow/Drop/shadow/unshadow; compiler Begin/Shadow/End) against a ghost chain-of-bindings view: a declaration inside a block shadows, End restores exactly the outer binding (including a binding that was itself shadowing), slots are never shared between live names. Compile cases that open blocks (if, for, range, switch, lambda) are proved to pair Begin/End on every exit path.",
   technique=TECH),
 'C10': dict(level='proof', design='5.10',
   text="Abstract-view contracts on numericMap and stringMap (Len, Get, Set, Delete, Range and their yield closures): view = finite map from key to value over the live entries; Set/Delete/Get stated over the whole view (other keys unchanged), Len = cardinality, Range visits live keys once. Two obligations (W2 of Set: a key deleted and re-inserted during a range can be visited twice) are genuine defects recorded as known findings. intMap/Value-keyed maps go through the same two implementations via the proved key-normalisation lemma intKey.",
   technique=TECH),
 'C11': dict(level='proof', design='5.11',
   text="Contracts on sliceT (Len, Get, Set, Slice, Append, Delete, Copy, Range closure) and NewSlice/newSlice over the engine's slice model (array identity, offset, len, cap): sub-slices share the array, append in capacity writes in place and beyond capacity allocates a fresh array leaving the old one untouched, bounds errors exactly when Go panics, element typing via assign, Value.Slice on nil slices. Known finding D14 (negative upper bound accepted by SLICE). The items-layout clause of Append for multi-append paths was intractable and is not claimed.",
   technique=TECH),
 'C12': dict(level='proof', design='5.12',
   text="The robin-hood table intmap.go is verified against its full invariant (home-slot relation, probe-chain property, unique keys, load bound via a ghost occupancy count): Get and Assign are complete (a live key is always found), insert preserves the invariant and adds exactly the new entry (displacement loop with carried-pair invariants), resize re-inserts every entry (view preserved), Set, Copy (fresh array, same view), init, newIntMap. On top of it the struct layer: newStruct, newStructByIndex/NewStruct (instance = copy of the type's fields in a fresh array, shared Lookup/Order/Methods pointer), SetIndex/SetAttr (only the addressed field changes, value typed by assign), GetIndex/GetAttr (field, else bound method via newMethod), addField, syncFields, addMethod, and the STRUCT/GLOBALSTRUCT/NEWSTRUCT/SETMETHOD cases. Assumed (listed in evidence): intMap.Delete (backward-shift deletion; not called by any production code), the counting facts COUNT about the ghost occupancy count, the power-of-two facts POW2 (checked on 64-bit vectors by lemmas each run), the 3-line dispatchers Value.getIndex/setIndex. Termination of the probe loops is not claimed.",
   technique=TECH),
 'C13': dict(level='proof', design='5.13',
   text="Contracts on stringT (Len, Get, Slice, Set refusal, Append, Delete) over the uninterpreted string theory with byte-length axioms, token.Char for character literals, and convert[TypeString]. Three genuine defects were repaired (fix: commits for D15, D16, D17). stringT.Range and its iterator are verified against Go's decoder modelled as uninterpreted runeAt/runeWidth (byte offsets, every rune start exactly once, the whole string).",
   technique=TECH),
 'C14': dict(level='proof', design='5.14',
   text="Termination and shape of rendering: every container SafeStr has a call-site obligation that it recurses only into elements whose type is itself not a container (so recursion depth is bounded by 2 and rendering terminates on self-containing values), vaSprint joins operands with exactly one space, Value.String cases delegate to fmt for scalars. Full-depth rendering of nested containers fails (known finding D18).",
   technique=TECH),
 'C15': dict(level='proof', design='5.15',
   text="Contracts on the loader (loadPackage, loadFile, rawLoadPackage, rawLoadFile, loadImports and its loops, checkConstraint) with a ghost 'loaded' set: a package is initialised at most once, imports before importer, _test.go and constraint-excluded files skipped, a cycle yields an error instead of silently dropping a package (D8 repaired); compilePkgs hands every package's compiler the same local-slot table. File-system functions are extern contracts (assumed).",
   technique=TECH),
 'C16': dict(level='proof', design='5.16',
   text="Table obligations extracted from the REAL priority map literal and sort call of treeSort (stable sort; type > method/function > 0; imports first; init last; every statement kind in the stable default class), plus call-site obligations that every tree handed to loadImports (from loadPackage, loadFile and for every dependency) has been through treeSort (ghost predicate hoisted), symAtPos's contract, and the (name) compile case (a package-level name resolves under the export-prefixed key whether or not it was declared before). The sort.SliceStable library call itself and joinFiles are trusted (listed as assumptions); the behavioural consequence (all permutations run identically) rests on them and on C07/C08.",
   technique=TECH + "; table obligations over the source literal"),
 'C17': dict(level='proof', design='5.17',
   text="Heap contracts for GLOBALFUNC (in-place copy into the existing funcT, every other function object untouched), GLOBALZERO (writes only when the variable is nil), GLOBALSET, lookup.Write/Assign. addMethod (an existing method object is overwritten in place and the method table left alone, so bound methods captured earlier run the new body), addField/syncFields (GLOBALSTRUCT merges into the existing type object).",
   technique=TECH),
 'C19': dict(level='proof', design='5.19',
   text="Round-trip contracts on every numeric/bool/object Value constructor/accessor pair, discharged for all argument values; newFunc; the NewFunc adapters 0->1, N->0, N->1, N->M (the native receives exactly the top argc values in order, they are removed, results are appended, nothing below is touched, no slicing beyond the stack); VM.Func/Call never let a panic escape. Natives are assumed not to touch vm.stack themselves. The variadic adapter and the exact result count of Func are not under contract.",
   technique=TECH),
 'C20': dict(level='proof', design='5.20',
   text="Position lemma per optimizer rule (the fused instruction carries the position of a component that can fault, or one that the rule's own guard / Go's grammar puts on the same line) and the backtrace push/pop discipline of the activation closure. btErr emits exactly one line per non-zero backtrace entry (ghost count) after the faulting instruction's line, lambda restores the enclosing function name. After compile()'s stamping loop every emitted instruction carries a position.",
   technique=TECH),
}
na_reasons = {
 'C01': "whole-language equivalence with the Go toolchain: no contract within reach can state the postcondition (needs a formal Go semantics and a full compiler-correctness proof); the per-function slices of it are C04-C14",
 'C18': "relational property over two different evaluation histories of the whole pipeline; a function contract speaks about one call; would need the same full semantic-preservation proof as C01",
}
checks = []
for p in props:
    c = claims.get(p['id'])
    if not c: continue
    checks.append({
      "property_id": p['id'],
      "quick_cmd": "bin/govc check %s --tier quick" % p['id'],
      "thorough_cmd": "bin/govc check %s --tier thorough" % p['id'],
      "evidence_file": "/verif/evidence/%s.json" % p['id'],
      "replay_cmd_template": "bin/govc replay {path}",
      "engine": "govc",
      "level_claimed": {"category": c['level'], "text": c['text'], "design_ref": "DESIGN.md section " + c['design']},
      "level_note": c.get('note', TRUST),
      "technique": c['technique'],
    })
na = []
for p in props:
    if p['id'] in claims: continue
    na.append({"property_id": p['id'], "reason": na_reasons.get(p['id'], "contracts not completed yet (framework under construction); see DESIGN.md section 5 for the plan")})
m = {
 "version": 1,
 "setup_cmd": "./build.sh",
 "hooks": {"guard": "verif", "enable": "-tags verif (only /repo/contracts_verif.go, comment-only, carries the tag)",
           "baseline_off_cmd": "cd /repo && GOFLAGS=-mod=mod GOPROXY=off GOSUMDB=off go test -json -vet=off -count=1 -timeout 25m ./...",
           "source_commits": os.popen("git -C /repo log --format=%H --grep='^verif:'").read().split(),
           "add_only": True},
 "engines": [{"name": "govc", "path": "/verif/govc", "serves_properties": sorted(claims),
              "kind_free_text": "home-made deductive verifier for Go: contracts in /repo/contracts_verif.go (build tag verif), symbolic execution of the typed AST of the working tree, VCs discharged by z3 4.8.12 / z3 5.1.0 / cvc5 1.0.3, counterexamples replayed on the real code with go test -overlay"}],
 "checks": checks,
 "not_applicable": na,
 "notes": "see DESIGN.md; known findings in known_findings.txt",
}
json.dump(m, open(os.path.join(here, 'MANIFEST.json'), 'w'), indent=1)
print("claimed:", sorted(claims), "n/a:", len(na))

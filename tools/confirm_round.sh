#!/bin/bash
# Confirms second-round mutations produced by sub-agents in ${OUT:-/tmp/mut2/out} and stores the confirmed ones
# under /verif/seeded/<id>_n<k>/ (patch.diff, demo_test.go, meta.json).
export GOFLAGS=-mod=mod GOPROXY=off GOSUMDB=off
export OUT=${OUT:-/tmp/mut2/out} SUF=${SUF:-n} ROUND=${ROUND:-2}
S=/var/tmp/confirm2
for d in ${OUT:-/tmp/mut2/out}/*_${SUF:-n}[12].diff; do
  name=$(basename $d .diff); id=${name%%_*}
  [ -n "$1" ] && [ "$1" != "$id" ] && [ "$1" != "$name" ] && continue
  demo=${OUT:-/tmp/mut2/out}/${name}_demo_test.go
  [ -f $demo ] || { echo "$name: no demo"; continue; }
  rm -rf $S; mkdir -p $S; (cd /repo && git ls-files -z | xargs -0 cp --parents -t $S)
  cd $S
  cp $demo zz_demo_test.go
  run=$(grep -o "func TestDemo[0-9A-Za-z_]*" zz_demo_test.go | head -1 | sed 's/func //')
  base=$(go test -vet=off -count=1 -run "TestDemo" . 2>&1 | tail -1)
  if ! patch -s -p1 < $d >/dev/null 2>&1; then echo "$name: patch does not apply"; continue; fi
  mut=$(go test -vet=off -count=1 -run "TestDemo" . 2>&1 | tail -1)
  rm zz_demo_test.go
  suite=$(go test -vet=off -count=1 ./... 2>&1 | grep -c "^FAIL\|^---")
  okb=$(echo "$base" | grep -c "^ok"); okm=$(echo "$mut" | grep -c "^FAIL")
  if [ $okb = 1 ] && [ $okm = 1 ] && [ $suite = 0 ]; then
    mkdir -p /verif/seeded/$name; cp $d /verif/seeded/$name/patch.diff; cp $demo /verif/seeded/$name/demo_test.go
    python3 - "$name" <<'PY'
import json,sys
n=sys.argv[1]
m=json.load(open(__import__('os').environ.get('OUT','/tmp/mut2/out')+'/%s.json'%n))
m['round']=int(__import__('os').environ.get('ROUND','2'))
m['confirmed']={'ran':['patch applied to a scratch copy of the current tree','suite passes with the change','demo fails with the change','demo passes without it']}
json.dump(m,open('/verif/seeded/%s/meta.json'%n,'w'),indent=1)
PY
    echo "$name: CONFIRMED"
  else
    echo "$name: NOT confirmed (base: $base | mutated: $mut | suite failures: $suite)"
  fi
done
rm -rf $S
